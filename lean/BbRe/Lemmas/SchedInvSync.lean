import BbRe.Lemmas.SchedInvExec
/-! `Synchronize`: `syncReturn`, `execResponse`, `assignNextQueuedTask`, `getNextTask`. -/
namespace BbRe.Lemmas.SchedInv
open BbRe.Sched

/-- a flag-only update of a worker that leaves it un-parked, un-woken and not waiting for an undrain -/
theorem setFlags_inv {ex exo} {s : State} {wk wk' : Worker} (hI : InvX ex exo s)
    (hw : wfind s.workers wk.scq wk.id = some wk) (h1 : wk'.scq = wk.scq) (h2 : wk'.id = wk.id)
    (h3 : wk'.task = wk.task) (h4 : wk'.parked = false) (h5 : wk'.woken = false)
    (h6 : wk'.drainWait = none) : InvX ex exo (s.setWorker wk') := by
  refine ⟨?_, hI.oinv, hI.sinv, hI.linv⟩
  simp only [setWorker_eq]
  have hc := hI.core
  core_facts hc
  constructor <;> grind

/-- the worker record at the end of a `Synchronize` call -/
def resetW (wk : Worker) : Worker :=
  { wk with inSync := false, parked := false, woken := false, drainWait := none, timer := none }

theorem syncReturn_eq (s : State) (q : ScqId) (w : WId) :
    syncReturn s q w = match s.worker? q w with
      | some wk => { s.setWorker (resetW wk) with
                     cleanup := ⟨s.now + s.cfg.workerTimeout, .worker q w⟩ :: s.cleanup }
      | none => s := by
  unfold syncReturn
  cases s.worker? q w <;> rfl

theorem syncReturn_inv {ex exo} {s : State} (q : ScqId) (w : WId) (hI : InvX ex exo s) :
    InvX ex exo (syncReturn s q w) := by
  rw [syncReturn_eq]
  cases hw : s.worker? q w with
  | none => exact hI
  | some wk =>
    dsimp only
    have hk := wfind_key hw
    have := setFlags_inv (wk := wk) (wk' := resetW wk) hI (by rw [hk.1, hk.2]; exact hw) rfl rfl rfl rfl rfl rfl
    exact ⟨this.core, this.oinv, this.sinv.cleanup_cons _ (by intro k; simp), this.linv⟩

theorem syncReturn_fr (s : State) (q : ScqId) (w : WId) : Fr s (syncReturn s q w) := by
  rw [syncReturn_eq]
  cases s.worker? q w with
  | none => exact Fr.refl s
  | some wk => exact Fr.of_same rfl rfl rfl rfl rfl rfl rfl

theorem syncReturn_events (s : State) (q : ScqId) (w : WId) : (syncReturn s q w).events = s.events := by
  rw [syncReturn_eq]
  cases s.worker? q w <;> rfl

theorem ExecOK.syncReturn {s : State} {q' : ScqId} {w' : WId} {d : Nat} (q : ScqId) (w : WId)
    (h : ExecOK s q' w' d) : ExecOK (syncReturn s q w) q' w' d := by
  rw [syncReturn_eq]
  cases hw : s.worker? q w with
  | none => exact h
  | some wk =>
    obtain ⟨wk0, k, t, a, b, c, e, f⟩ := h
    dsimp only
    have hk := wfind_key hw
    simp only [worker?_def] at hw
    have hk' : (resetW wk).scq = q ∧ (resetW wk).id = w := hk
    by_cases hqq : q = q' ∧ w = w'
    · obtain ⟨rfl, rfl⟩ := hqq
      rw [hw] at a; cases a
      refine ⟨resetW wk, k, t, ?_, b, c, e, f⟩
      simp only [setWorker_eq]; rw [wfind_wset, if_pos hk', hw]; rfl
    · refine ⟨wk0, k, t, ?_, b, c, e, f⟩
      simp only [setWorker_eq]; rw [wfind_wset, if_neg]
      · exact a
      · exact fun h => hqq ⟨hk'.1.symm.trans h.1, hk'.2.symm.trans h.2⟩

theorem SyncEv.syncReturn {s : State} {e : Event} (q : ScqId) (w : WId) (h : SyncEv s e) :
    SyncEv (syncReturn s q w) e := by
  cases e <;> simp_all [SyncEv]
  exact h.syncReturn q w

/-- postcondition of a `Synchronize` segment -/
def SyncPost (s s' : State) : Prop := Inv s' ∧ Mono s s' ∧ Ext (SyncEv s') s.events s'.events

/-- `return syncReturn (emit s e) q w` for a quiet event -/
theorem syncReturn_quiet_post {s : State} (hI : Inv s) (e : Event) (hq : Quiet e) (hn : NoLearn e)
    (q : ScqId) (w : WId) : SyncPost s (syncReturn (emit s e) q w) := by
  have hI1 : Inv (emit s e) := ⟨hI.core, hI.oinv, hI.sinv, hI.linv.emit _ hn⟩
  refine ⟨syncReturn_inv q w hI1, ?_, ?_⟩
  · exact Mono.trans (show Mono s (emit s e) from
      ⟨rfl, Nat.le_refl _, Nat.le_refl _, Nat.le_refl _, fun k hk => hk, Ext.refl _ _⟩) (syncReturn_fr _ q w).toMono
  · rw [syncReturn_events]
    exact Ext.cons (Ext.refl _ _) _ (SyncEv.of_quiet hq)

/-- `return syncReturn (← execResponse s wk) q w` -/
theorem execReturn_spec {s : State} {q : ScqId} {w : WId} {wk wk' : Worker} {tid : Nat} (hI : Inv s)
    (hw : wfind s.workers q w = some wk') (ht' : wk'.task = some tid) (ht : wk.task = some tid)
    (hq : wk.scq = q) (hi : wk.id = w) :
    wp (execResponse s wk >>= fun s1 => pure (syncReturn s1 q w)) (fun s' => SyncPost s s') := by
  obtain ⟨t, htk, htw⟩ := hI.core.p1 q w wk' tid hw ht'
  have hr : t.response = none := hI.core.p3 tid t htk (by rw [htw]; rfl)
  unfold execResponse
  simp only [ht, task?_def, htk, pure_bind, wp_pure]
  have hI1 : Inv (emit s (.syncExecute wk.scq wk.id t.digest (s.now + s.cfg.busyInterval))) :=
    ⟨hI.core, hI.oinv, hI.sinv, hI.linv.emit _ (fun _ => ⟨rfl, rfl⟩)⟩
  refine ⟨syncReturn_inv q w hI1, ?_, ?_⟩
  · exact Mono.trans (show Mono s (emit s (.syncExecute wk.scq wk.id t.digest (s.now + s.cfg.busyInterval))) from
      ⟨rfl, Nat.le_refl _, Nat.le_refl _, Nat.le_refl _, fun k hk => hk, Ext.refl _ _⟩) (syncReturn_fr _ q w).toMono
  · rw [syncReturn_events]
    refine Ext.cons (Ext.refl _ _) _ ?_
    rw [hq, hi]
    exact ExecOK.syncReturn q w ⟨wk', tid, t, hw, ht', htk, rfl, hr⟩

theorem assignSt_mono {s : State} {w : Worker} {t : Task} (ht : alookup t.id s.tasks = some t)
    (hr : t.response = none) : Mono s (assignSt s w t) := by
  have hnd : ¬ Dead s.tasks s.nextTask t.id := by
    intro hd; have := hd.2 t ht; simp [hr] at this
  refine ⟨rfl, Nat.le_refl _, Nat.le_refl _, Nat.le_refl _, ?_, ⟨[(w.scq, w.id, t.id)], rfl, ?_⟩⟩
  · intro k hk
    refine ⟨hk.1, ?_⟩
    intro t'
    simp only [assignSt, State.setTask, setWorker_eq]
    rw [alookup_aset]
    split
    · rename_i hkk; subst hkk; exact absurd hk hnd
    · exact hk.2 t'
  · intro x hx; simp only [List.mem_singleton] at hx; subst hx; exact hnd

theorem mem_queuedTasks {s : State} {q : ScqId} {t : Task} (hn : (keys s.tasks).Nodup)
    (h : t ∈ queuedTasks s q) : ∃ k, alookup k s.tasks = some t ∧ t.worker = none ∧ t.response = none := by
  unfold queuedTasks at h
  simp only [List.mem_map, List.mem_filter] at h
  obtain ⟨⟨k, t'⟩, ⟨hm, hp⟩, rfl⟩ := h
  simp only [decide_eq_true_eq] at hp
  refine ⟨k, alookup_of_mem hn hm, ?_, ?_⟩
  · simpa using hp.2.2.1
  · simpa using hp.2.2.2

theorem assignNext_spec {h : Hints} {s : State} {w : Worker} (hI : Inv s)
    (hw : wfind s.workers w.scq w.id = some w) (hwt : w.task = none) (hwp : w.parked = false)
    (hwd : w.drainWait = none) :
    wp (assignNext h s w) (fun r => Inv r.1 ∧ Mono s r.1 ∧ r.1.events = s.events ∧
      (r.2 = false → r.1 = s) ∧
      (r.2 = true → ∃ tid, wfind r.1.workers w.scq w.id = some { w with task := some tid })) := by
  unfold assignNext
  split
  · rename_i a _
    split
    · rename_i t hf
      have hm := List.mem_of_find?_eq_some hf
      obtain ⟨k, hk, htw, hr⟩ := mem_queuedTasks hI.core.tnd hm
      have hid : t.id = k := (hI.core.tid k t hk).1
      have ht : alookup t.id s.tasks = some t := by rw [hid]; exact hk
      rw [assignTo_eq]
      simp only [hwt, htw, Option.isSome_none, Bool.false_eq_true, if_false, ok_bind']
      have hI1 := (assignSt_inv hI hw hwt hwp hwd ht hr htw).mono (fun k hk => hk.1) (fun _ h => h)
      have ht1 : alookup t.id (assignSt s w t).tasks =
          some { t with worker := some (w.scq, w.id), retry := 0, queued := false } := by
        simp only [assignSt, State.setTask, setWorker_eq]; rw [alookup_aset, if_pos rfl]
      simp only [task?_def, ht1]
      rw [wp_pure]
      refine ⟨bumpGen_inv hI1 ht1, ?_, rfl, (fun h => by cases h), fun _ => ⟨t.id, ?_⟩⟩
      · refine (assignSt_mono ht hr).trans (Fr.setTask
          (t := bumpGen { t with worker := some (w.scq, w.id), retry := 0, queued := false })
          (t0 := { t with worker := some (w.scq, w.id), retry := 0, queued := false }) ?_ rfl).toMono
        simp only [bumpGen]; exact ht1
      · simp only [State.setTask, assignSt, setWorker_eq]
        rw [wfind_wset]; simp [hw]
    · okerr
  · split
    · exact ⟨hI, Mono.refl s, rfl, fun _ => rfl, (fun h => by cases h)⟩
    · okerr

/-- the synchronizing worker is ready to take a task or to block -/
structure Ready (wk : Worker) : Prop where
  parked : wk.parked = false
  woken : wk.woken = false
  task : wk.task = none
  drainWait : wk.drainWait = none
  inSync : wk.inSync = true

theorem SyncPost.trans_left {s s1 s' : State} (hm : Mono s s1) (hev : Ext Quiet s.events s1.events)
    (h : SyncPost s1 s') : SyncPost s s' :=
  ⟨h.1, hm.trans h.2.1, (hev.mono (fun _ => SyncEv.of_quiet)).trans h.2.2⟩

theorem SyncPost.of_quiet {s s' : State} (hI : Inv s') (hfr : Fr s s') : SyncPost s s' :=
  ⟨hI, hfr.toMono, hfr.ev.mono (fun _ => SyncEv.of_quiet)⟩

theorem park_inv {s : State} {wk : Worker} {x : Option Nat} (hI : Inv s)
    (hw : wfind s.workers wk.scq wk.id = some wk) (hr : Ready wk) :
    Inv (s.setWorker { wk with parked := true, woken := false, timer := x }) := by
  refine ⟨?_, hI.oinv, hI.sinv, hI.linv⟩
  simp only [setWorker_eq]
  have hc := hI.core
  obtain ⟨r1, r2, r3, r4, r5⟩ := hr
  core_facts hc
  constructor <;> grind

theorem drainWait_inv {s : State} {wk : Worker} {g : Nat} {x : Option Nat} (hI : Inv s)
    (hw : wfind s.workers wk.scq wk.id = some wk) (hr : Ready wk) :
    Inv (s.setWorker { wk with drainWait := some g, timer := x }) := by
  refine ⟨?_, hI.oinv, hI.sinv, hI.linv⟩
  simp only [setWorker_eq]
  have hc := hI.core
  obtain ⟨r1, r2, r3, r4, r5⟩ := hr
  core_facts hc
  constructor <;> grind

theorem setWorker_fr (s : State) (wk : Worker) : Fr s (s.setWorker wk) :=
  Fr.of_same rfl rfl rfl rfl rfl rfl rfl

set_option maxHeartbeats 1000000 in
theorem getNextTask_spec {h : Hints} {s : State} {q : ScqId} {w : WId} {wk : Worker} {pi bl : Bool}
    (hI : Inv s) (hw : wfind s.workers q w = some wk) (hr : Ready wk) :
    wp (getNextTask h s q w pi bl) (fun s' => SyncPost s s') := by
  have hk := wfind_key hw
  have hw' : wfind s.workers wk.scq wk.id = some wk := by rw [hk.1, hk.2]; exact hw
  have hidle : SyncPost s (syncReturn (emit s (.syncIdle q w s.now)) q w) :=
    syncReturn_quiet_post hI (.syncIdle q w s.now) trivial (fun _ => ⟨rfl, rfl⟩) q w
  unfold getNextTask
  simp only [worker?_def, hw]
  split
  · rename_i sq _
    by_cases hpi : pi = true
    · simp only [hpi, if_true]; exact hidle
    · simp only [hpi, if_false]
      by_cases hd : isDrained sq wk = true
      · simp only [hd, Bool.not_true, Bool.false_eq_true, if_false]
        by_cases hb : bl = true
        · simp only [hb, Bool.not_true, Bool.false_eq_true, if_false, wp_pure]
          exact SyncPost.of_quiet (drainWait_inv hI hw' hr) (setWorker_fr _ _)
        · simp only [hb, Bool.not_false, if_true]; exact hidle
      · simp only [hd, Bool.not_false, if_true]
        apply wp_bind
        refine wp_mono (assignNext_spec (h := h) hI hw' hr.task hr.parked hr.drainWait) ?_
        intro ⟨s1, got⟩ ⟨hI1, hm1, hev1, hf, ht⟩
        dsimp only at hI1 hm1 hev1 hf ht ⊢
        cases got with
        | true =>
          obtain ⟨tid, hw1⟩ := ht rfl
          rw [hk.1, hk.2] at hw1
          simp only [if_true, hw1]
          refine wp_mono (execReturn_spec hI1 hw1 rfl rfl rfl rfl) ?_
          intro s' hp
          exact SyncPost.trans_left hm1 (by rw [hev1]; exact Ext.refl _ _) hp
        | false =>
          have hs1 := hf rfl
          subst hs1
          simp only [Bool.false_eq_true, if_false]
          by_cases hb : bl = true
          · simp only [hb, Bool.not_true, Bool.false_eq_true, if_false, hw, hr.parked, wp_pure]
            exact SyncPost.of_quiet (park_inv hI hw' hr) (setWorker_fr _ _)
          · simp only [hb, Bool.not_false, if_true]; exact hidle
  · okerr

/-- after `complete` of the task held by an un-parked worker, that worker holds nothing -/
theorem complete_clears {s s1 : State} {tid : Nat} {q : ScqId} {w : WId} {wk : Worker} (hI : Inv s)
    (hI1 : Inv s1) (hcp : CompPost s tid s1) (hw : wfind s.workers q w = some wk)
    (hwt : wk.task = some tid) (hnp : wk.parked = false) :
    wfind s1.workers q w = some { wk with task := none } := by
  obtain ⟨t, ht, htw⟩ := hI.core.p1 q w wk tid hw hwt
  have hr : t.response = none := hI.core.p3 tid t ht (by rw [htw]; rfl)
  obtain ⟨wk1, hw1, he1, hor⟩ := hcp.rw q w wk hw hnp
  have hnone : wk1.task = none := by
    rcases hor with hor | hor
    · exfalso
      rw [hwt] at hor
      obtain ⟨t1, ht1, htw1⟩ := hI1.core.p1 q w wk1 tid hw1 hor
      obtain ⟨t', a, _, prov⟩ := hcp.tt t ht
      rw [ht1] at a; cases a
      obtain ⟨wk0, h0, hp0⟩ := prov hr q w htw1
      rw [hw] at h0; cases h0
      rw [hnp] at hp0; cases hp0
    · exact hor
  rw [hw1, he1, hnone]

/-- changing only the retry counter of a task -/
theorem setRetry_inv {ex exo} {s : State} {tid : Nat} {t : Task} {n : Nat} (hI : InvX ex exo s)
    (ht : alookup tid s.tasks = some t) : InvX ex exo (s.setTask { t with retry := n }) := by
  have hid : t.id = tid := (hI.core.tid tid t ht).1
  have ht' : alookup ({ t with retry := n } : Task).id s.tasks = some t := by simp only []; rw [hid]; exact ht
  refine ⟨?_, hI.oinv.setTask (t := { t with retry := n }) ht' rfl, hI.sinv,
    hI.linv.setTask (t := { t with retry := n }) ht' (Or.inl rfl)⟩
  simp only [State.setTask]
  have hc := hI.core
  core_facts hc
  constructor <;> grind

theorem emit_mono (s : State) (e : Event) : Mono s (emit s e) :=
  ⟨rfl, Nat.le_refl _, Nat.le_refl _, Nat.le_refl _, fun _ hk => hk, Ext.refl _ _⟩

/-- flags of the synchronizing worker on entry of `getCurrentOrNextTask` -/
structure Ready' (wk : Worker) : Prop where
  parked : wk.parked = false
  woken : wk.woken = false
  drainWait : wk.drainWait = none
  inSync : wk.inSync = true

set_option maxHeartbeats 1000000 in
theorem getCurrentOrNext_spec {h : Hints} {s : State} {q : ScqId} {w : WId} {wk : Worker} {pi bl : Bool}
    (hI : Inv s) (hw : wfind s.workers q w = some wk) (hr : Ready' wk) :
    wp (getCurrentOrNext h s q w pi bl) (fun s' => SyncPost s s') := by
  unfold getCurrentOrNext
  simp only [worker?_def, hw]
  cases hwt : wk.task with
  | none =>
    dsimp only
    exact getNextTask_spec hI hw ⟨hr.parked, hr.woken, hwt, hr.drainWait, hr.inSync⟩
  | some tid =>
    dsimp only
    obtain ⟨t, ht, htw⟩ := hI.core.p1 q w wk tid hw hwt
    have hresp : t.response = none := hI.core.p3 tid t ht (by rw [htw]; rfl)
    simp only [task?_def, ht]
    by_cases hret : t.retry < s.cfg.retryCount
    · simp only [hret, if_true, wp_pure]
      have hI1 := setRetry_inv (n := t.retry + 1) hI ht
      have hid : t.id = tid := (hI.core.tid tid t ht).1
      have hfr1 : Fr s (s.setTask { t with retry := t.retry + 1 }) :=
        Fr.setTask (t := { t with retry := t.retry + 1 }) (t0 := t) (by simp only []; rw [hid]; exact ht) rfl
      have hI2 : Inv (emit (s.setTask { t with retry := t.retry + 1 })
          (.syncExecute q w t.digest ((s.setTask { t with retry := t.retry + 1 }).now +
            (s.setTask { t with retry := t.retry + 1 }).cfg.busyInterval))) :=
        ⟨hI1.core, hI1.oinv, hI1.sinv, hI1.linv.emit _ (fun _ => ⟨rfl, rfl⟩)⟩
      refine ⟨syncReturn_inv q w hI2, ?_, ?_⟩
      · exact (hfr1.toMono.trans (emit_mono _ _)).trans (syncReturn_fr _ q w).toMono
      · rw [syncReturn_events]
        refine Ext.cons (Ext.refl _ _) _ ?_
        refine ExecOK.syncReturn q w ⟨wk, tid, { t with retry := t.retry + 1 }, hw, hwt, ?_, rfl, hresp⟩
        simp only [emit, State.setTask]; rw [alookup_aset, if_pos hid]
    · simp only [hret, if_false]
      apply wp_bind
      refine wp_mono (complete_spec (h := h) (r := ⟨cInternal, 0, 0, .retryLimit⟩) (bw := false) hI
        (by rw [ht]; rfl)) ?_
      intro s1 ⟨hI1, hcp, _, _⟩
      have hw1 := complete_clears hI hI1 hcp hw hwt hr.parked
      refine wp_mono (getNextTask_spec (h := h) hI1 hw1 ⟨hr.parked, hr.woken, rfl, hr.drainWait, hr.inSync⟩) ?_
      intro s' hp
      exact SyncPost.trans_left hcp.fr.toMono hcp.fr.ev hp

theorem noLearn_syncErr (q w c) : NoLearn (.syncErr q w c) := fun _ => ⟨rfl, rfl⟩

theorem emit_quiet_inv {s : State} (hI : Inv s) (e : Event) (hn : NoLearn e) : Inv (BbRe.Sched.emit s e) :=
  ⟨hI.core, hI.oinv, hI.sinv, hI.linv.emit e hn⟩

theorem emit_fr (s : State) (e : Event) (hq : Quiet e) : Fr s (emit s e) :=
  ⟨emit_mono s e, Ext.cons (Ext.refl _ _) _ hq⟩

/-- what `syncQueue` may change: the registry, `.scq` cleanup entries, and a `syncErr` event -/
def SQPost (s s1 : State) : Prop :=
  Inv s1 ∧ Fr s s1 ∧ s1.workers = s.workers ∧ s1.tasks = s.tasks

theorem removeCleanup_inv {ex exo} {s : State} (hI : InvX ex exo s) (k : CleanupKind) :
    InvX ex exo (s.removeCleanup k) :=
  ⟨hI.core, hI.oinv, hI.sinv.cleanup_sub (fun e he => (List.mem_filter.mp he).1), hI.linv⟩

theorem syncQueue_spec {s : State} {q : ScqId} {comps : List Nat} {platform : Nat} {w : WId} (hI : Inv s) :
    wp (syncQueue s q comps platform w) (fun r => match r with
      | .inl s1 => SQPost s s1
      | .inr s1 => SQPost s s1) := by
  have hsame : ∀ s1 : State, s1.tasks = s.tasks → s1.workers = s.workers → s1.dedup = s.dedup →
      s1.nextTask = s.nextTask → s1.nextLearner = s.nextLearner → s1.ops = s.ops → s1.nextOp = s.nextOp →
      s1.streams = s.streams → s1.cleanup = s.cleanup → s1.events = s.events → s1.cfg = s.cfg →
      s1.assigned = s.assigned → SQPost s s1 := by
    intro s1 h1 h2 h3 h4 h5 h6 h7 h8 h9 h10 h11 h12
    exact ⟨hI.of_same h1 h2 h3 h4 h5 h6 h7 h8 h9 h10, Fr.of_same h11 h1 h4 h5 h7 h10 h12, h2, h1⟩
  have herr : ∀ c, SQPost s (emit s (.syncErr q w c)) := fun c =>
    ⟨emit_quiet_inv hI _ (noLearn_syncErr _ _ _), emit_fr _ _ trivial, rfl, rfl⟩
  unfold syncQueue
  split
  · exact ⟨removeCleanup_inv hI _, Fr.of_same rfl rfl rfl rfl rfl rfl rfl, rfl, rfl⟩
  · split
    · dsimp only
      split
      · okerr
      · split
        · okerr
        · split
          · exact herr _
          · split
            · exact herr _
            · split
              · exact herr _
              · exact hsame _ rfl rfl rfl rfl rfl rfl rfl rfl rfl rfl rfl rfl
    · exact hsame _ rfl rfl rfl rfl rfl rfl rfl rfl rfl rfl rfl rfl

/-- a brand-new worker -/
def freshW (q : ScqId) (w : WId) : Worker :=
  { scq := q, id := w, task := none, terminating := false, parked := false, woken := false, inSync := true,
    drainWait := none, timer := none }

theorem addWorker_inv {ex exo} {s : State} {q : ScqId} {w : WId} (hI : InvX ex exo s)
    (hn : wfind s.workers q w = none) : InvX ex exo { s with workers := s.workers ++ [freshW q w] } := by
  refine ⟨?_, hI.oinv, hI.sinv, hI.linv⟩
  simp only []
  have hc := hI.core
  core_facts hc
  have hnd : WNodup (s.workers ++ [freshW q w]) := wnodup_append _ _ hc.wnd hn
  constructor
  case wnd => exact hnd
  all_goals grind [freshW]

theorem syncWorker_spec {s : State} {q : ScqId} {w : WId} (hI : Inv s) :
    match syncWorker s q w with
    | .inl s1 => Inv s1 ∧ Fr s s1
    | .inr s1 => Inv s1 ∧ Fr s s1 ∧ ∃ wk1, wfind s1.workers q w = some wk1 ∧ Ready' wk1 := by
  unfold syncWorker
  cases hw : s.worker? q w with
  | some wk =>
    dsimp only
    simp only [worker?_def] at hw
    have hk := wfind_key hw
    by_cases his : wk.inSync = true
    · rw [if_pos his]
      exact ⟨emit_quiet_inv hI _ (noLearn_syncErr _ _ _), emit_fr _ _ trivial⟩
    · rw [if_neg his]
      have hp : wk.parked = false := by
        cases hp : wk.parked with
        | false => rfl
        | true => exact absurd (hI.core.w1 q w wk hw hp).2.2.2 his
      have hwo : wk.woken = false := by
        cases hp : wk.woken with
        | false => rfl
        | true => exact absurd (hI.core.w2 q w wk hw hp).2 his
      have hd : wk.drainWait = none := by
        cases hd : wk.drainWait with
        | none => rfl
        | some g => exact absurd (hI.core.w3 q w wk hw (by rw [hd]; rfl)).2 his
      have hI1 := removeCleanup_inv hI (.worker q w)
      have hI2 := setFlags_inv (wk := wk) (wk' := { wk with inSync := true }) hI1
        (by rw [hk.1, hk.2]; exact hw) rfl rfl rfl hp hwo hd
      refine ⟨hI2, Fr.of_same rfl rfl rfl rfl rfl rfl rfl, { wk with inSync := true }, ?_, ⟨hp, hwo, hd, rfl⟩⟩
      simp only [setWorker_eq, State.removeCleanup]
      rw [wfind_wset]; simp [hk.1, hk.2, hw]
  | none =>
    dsimp only
    simp only [worker?_def] at hw
    refine ⟨addWorker_inv hI hw, Fr.of_same rfl rfl rfl rfl rfl rfl rfl, freshW q w, ?_, ⟨rfl, rfl, rfl, rfl⟩⟩
    rw [wfind_append, hw]; simp [freshW]

/-- `Synchronize` after the queue and the worker have been found or created -/
def syncBody (h : Hints) (s : State) (q : ScqId) (w : WId) (rep : Report) (preferIdle : Bool) : M State := do
  let some wk := s.worker? q w | throw "syncArrive: worker vanished"
  let runningCorrect (d : Nat) : Bool :=
    match wk.task with
    | some tid => match s.task? tid with | some t => t.digest = d | none => false
    | none => false
  match rep with
  | .malformed => return syncReturn (emit s (.syncErr q w cInvalidArgument)) q w
  | .idle => getCurrentOrNext h s q w preferIdle true
  | .executing d =>
    if runningCorrect d then return syncReturn (emit s (.syncNoChange q w (s.now + s.cfg.busyInterval))) q w
    else getCurrentOrNext h s q w preferIdle false
  | .completed d r =>
    if runningCorrect d then
      let some tid := wk.task | throw "syncArrive: no task"
      let s ← complete h s tid r true
      getNextTask h s q w preferIdle true
    else getCurrentOrNext h s q w preferIdle true

theorem syncArrive_eq (h : Hints) (s : State) (now : Nat) (q : ScqId) (comps : List Nat) (platform : Nat)
    (w : WId) (rep : Report) (pi : Bool) :
    syncArrive h s now q comps platform w rep pi =
      (enter h s now >>= fun s => syncQueue s q comps platform w >>= fun r =>
        match r with
        | .inl s => pure s
        | .inr s =>
          match syncWorker s q w with
          | .inl s => pure s
          | .inr s => syncBody h s q w rep pi) := rfl

theorem syncBody_spec {h : Hints} {s : State} {q : ScqId} {w : WId} {rep : Report} {pi : Bool} {wk : Worker}
    (hI : Inv s) (hw : wfind s.workers q w = some wk) (hr : Ready' wk) :
    wp (syncBody h s q w rep pi) (fun s' => SyncPost s s') := by
  unfold syncBody
  simp only [worker?_def, hw]
  cases rep with
  | malformed => exact syncReturn_quiet_post hI (.syncErr q w cInvalidArgument) trivial (noLearn_syncErr _ _ _) q w
  | idle => exact getCurrentOrNext_spec hI hw hr
  | executing d =>
    dsimp only
    cases hwt : wk.task with
    | none =>
      simp only [Bool.false_eq_true, if_false]
      exact getCurrentOrNext_spec hI hw hr
    | some tid =>
      dsimp only
      split
      · exact syncReturn_quiet_post hI (.syncNoChange q w _) trivial (fun _ => ⟨rfl, rfl⟩) q w
      · exact getCurrentOrNext_spec hI hw hr
  | completed d r =>
    dsimp only
    cases hwt : wk.task with
    | none =>
      simp only [Bool.false_eq_true, if_false]
      exact getCurrentOrNext_spec hI hw hr
    | some tid =>
      dsimp only
      split
      · obtain ⟨t, ht, _⟩ := hI.core.p1 q w wk tid hw hwt
        apply wp_bind
        refine wp_mono (complete_spec (h := h) (r := r) (bw := true) hI (by rw [ht]; rfl)) ?_
        intro s1 ⟨hI1, hcp, _, _⟩
        have hw1 := complete_clears hI hI1 hcp hw hwt hr.parked
        refine wp_mono (getNextTask_spec (h := h) hI1 hw1 ⟨hr.parked, hr.woken, rfl, hr.drainWait, hr.inSync⟩) ?_
        intro s' hp
        exact SyncPost.trans_left hcp.fr.toMono hcp.fr.ev hp
      · exact getCurrentOrNext_spec hI hw hr

theorem syncArrive_spec {h : Hints} {s : State} {now : Nat} {q : ScqId} {comps : List Nat} {platform : Nat}
    {w : WId} {rep : Report} {pi : Bool} (hI : Inv s) :
    wp (syncArrive h s now q comps platform w rep pi) (fun s' => SyncPost s s') := by
  rw [syncArrive_eq]
  apply wp_bind
  refine wp_mono (enter_spec hI) ?_
  intro s0 ⟨hI0, hfr0⟩
  apply wp_bind
  refine wp_mono (syncQueue_spec hI0) ?_
  intro r hr
  cases r with
  | inl s1 =>
    obtain ⟨hI1, hfr1, _, _⟩ := hr
    exact SyncPost.of_quiet hI1 (hfr0.trans hfr1)
  | inr s1 =>
    obtain ⟨hI1, hfr1, _, _⟩ := hr
    dsimp only
    have hsw := syncWorker_spec (q := q) (w := w) hI1
    cases hsw' : syncWorker s1 q w with
    | inl s2 =>
      rw [hsw'] at hsw
      exact SyncPost.of_quiet hsw.1 ((hfr0.trans hfr1).trans hsw.2)
    | inr s2 =>
      rw [hsw'] at hsw
      obtain ⟨hI2, hfr2, wk2, hw2, hr2⟩ := hsw
      dsimp only
      refine wp_mono (syncBody_spec hI2 hw2 hr2) ?_
      intro s' hp
      have hfr := (hfr0.trans hfr1).trans hfr2
      exact SyncPost.trans_left hfr.toMono hfr.ev hp

/-- `syncWake` after `bq.enter` -/
def wakeBody (h : Hints) (s : State) (q : ScqId) (w : WId) (reason : Nat) : M State := do
  let some wk := s.worker? q w | throw "mismatch: no such worker"
  if !wk.inSync then throw "mismatch: worker is not inside Synchronize"
  match reason with
  | 1 =>
    let s := s.setWorker { wk with parked := false, woken := false, drainWait := none }
    if wk.task.isSome then return syncReturn (← execResponse s wk) q w
    return syncReturn (emit s (.syncIdle q w s.now)) q w
  | 2 =>
    let s := s.setWorker { wk with parked := false, woken := false, drainWait := none }
    return syncReturn (emit s (.syncErr q w cCanceled)) q w
  | 0 =>
    if !wk.woken then throw "mismatch: worker woke up although its wakeup channel is open"
    let s := s.setWorker { wk with woken := false }
    if wk.task.isSome then return syncReturn (← execResponse s wk) q w
    getNextTask h s q w false true
  | 3 =>
    let some sq := s.scq? q | throw "syncWake: no queue"
    match wk.drainWait with
    | some g =>
      if g = sq.undrainGen then throw "mismatch: worker woke up without an undrain"
      let s := s.setWorker { wk with drainWait := none }
      getNextTask h s q w false true
    | none => throw "mismatch: worker is not waiting for an undrain"
  | _ => throw "bad-op"

theorem syncWake_eq (h : Hints) (s : State) (now : Nat) (q : ScqId) (w : WId) (reason : Nat) :
    syncWake h s now q w reason = (enter h s now >>= fun s => wakeBody h s q w reason) := rfl

theorem wfind_setWorker_self {s : State} {q : ScqId} {w : WId} {wk wk' : Worker}
    (hw : wfind s.workers q w = some wk) (h1 : wk'.scq = wk.scq) (h2 : wk'.id = wk.id) :
    wfind (s.setWorker wk').workers q w = some wk' := by
  have hk := wfind_key hw
  simp only [setWorker_eq]
  rw [wfind_wset, if_pos ⟨h1.trans hk.1, h2.trans hk.2⟩, hw]; rfl

set_option maxHeartbeats 1000000 in
theorem wakeBody_spec {h : Hints} {s : State} {q : ScqId} {w : WId} {reason : Nat} (hI : Inv s) :
    wp (wakeBody h s q w reason) (fun s' => SyncPost s s') := by
  unfold wakeBody
  cases hw : s.worker? q w with
  | none => okerr
  | some wk =>
    dsimp only
    simp only [worker?_def] at hw
    have hk := wfind_key hw
    have hw' : wfind s.workers wk.scq wk.id = some wk := by rw [hk.1, hk.2]; exact hw
    by_cases his : wk.inSync = true
    · have hng : ¬ ((!wk.inSync) = true) := by simp [his]
      rw [if_neg hng]
      try simp only [pure_bind]
      -- the timeout / cancel update
      have hI12 := setFlags_inv (wk := wk) (wk' := { wk with parked := false, woken := false, drainWait := none })
        hI hw' rfl rfl rfl rfl rfl rfl
      have hw12 := wfind_setWorker_self (wk' := { wk with parked := false, woken := false, drainWait := none })
        hw rfl rfl
      split
      · -- timeout
        by_cases hts : wk.task.isSome = true
        · rw [if_pos hts]
          obtain ⟨tid, hwt⟩ := Option.isSome_iff_exists.mp hts
          refine wp_mono (execReturn_spec hI12 hw12 hwt hwt hk.1 hk.2) ?_
          intro s' hp
          exact SyncPost.trans_left (setWorker_fr _ _).toMono (setWorker_fr _ _).ev hp
        · rw [if_neg hts, wp_pure]
          exact SyncPost.trans_left (setWorker_fr _ _).toMono (setWorker_fr _ _).ev
            (syncReturn_quiet_post hI12 (.syncIdle q w _) trivial (fun _ => ⟨rfl, rfl⟩) q w)
      · -- cancelled
        rw [wp_pure]
        exact SyncPost.trans_left (setWorker_fr _ _).toMono (setWorker_fr _ _).ev
          (syncReturn_quiet_post hI12 (.syncErr q w cCanceled) trivial (noLearn_syncErr _ _ _) q w)
      · -- wake-up channel closed
        by_cases hwo : wk.woken = true
        · have hng2 : ¬ ((!wk.woken) = true) := by simp [hwo]
          rw [if_neg hng2]
          try simp only [pure_bind]
          have hp : wk.parked = false := by
            cases hp : wk.parked with
            | false => rfl
            | true => have := (hI.core.w1 q w wk hw hp).2.2.1; rw [hwo] at this; cases this
          have hd : wk.drainWait = none := (hI.core.w2 q w wk hw hwo).1
          have hI0 := setFlags_inv (wk := wk) (wk' := { wk with woken := false }) hI hw' rfl rfl rfl hp rfl hd
          have hw0 := wfind_setWorker_self (wk' := { wk with woken := false }) hw rfl rfl
          by_cases hts : wk.task.isSome = true
          · rw [if_pos hts]
            obtain ⟨tid, hwt⟩ := Option.isSome_iff_exists.mp hts
            refine wp_mono (execReturn_spec hI0 hw0 hwt hwt hk.1 hk.2) ?_
            intro s' hp
            exact SyncPost.trans_left (setWorker_fr _ _).toMono (setWorker_fr _ _).ev hp
          · rw [if_neg hts]
            have hwt : wk.task = none := by simpa using hts
            refine wp_mono (getNextTask_spec (h := h) hI0 hw0 ⟨hp, rfl, hwt, hd, his⟩) ?_
            intro s' hp
            exact SyncPost.trans_left (setWorker_fr _ _).toMono (setWorker_fr _ _).ev hp
        · have hng2 : ((!wk.woken) = true) := by simpa using hwo
          rw [if_pos hng2]; okerr
      · -- undrain
        split
        · rename_i sq _
          cases hdw : wk.drainWait with
          | none => dsimp only; okerr
          | some g =>
            dsimp only
            by_cases hg : g = sq.undrainGen
            · rw [if_pos hg]; okerr
            · rw [if_neg hg]
              try simp only [pure_bind]
              have h3 := hI.core.w3 q w wk hw (by rw [hdw]; rfl)
              have hp : wk.parked = false := by
                cases hp : wk.parked with
                | false => rfl
                | true => have := (hI.core.w1 q w wk hw hp).2.1; rw [hdw] at this; cases this
              have hwo : wk.woken = false := by
                cases hp : wk.woken with
                | false => rfl
                | true => have := (hI.core.w2 q w wk hw hp).1; rw [hdw] at this; cases this
              have hI3 := setFlags_inv (wk := wk) (wk' := { wk with drainWait := none }) hI hw' rfl rfl rfl hp hwo rfl
              have hw3 := wfind_setWorker_self (wk' := { wk with drainWait := none }) hw rfl rfl
              refine wp_mono (getNextTask_spec (h := h) hI3 hw3 ⟨hp, hwo, h3.1, rfl, his⟩) ?_
              intro s' hp
              exact SyncPost.trans_left (setWorker_fr _ _).toMono (setWorker_fr _ _).ev hp
        · okerr
      · okerr
    · have hng : ((!wk.inSync) = true) := by simpa using his
      rw [if_pos hng]; okerr

theorem syncWake_spec {h : Hints} {s : State} {now : Nat} {q : ScqId} {w : WId} {reason : Nat} (hI : Inv s) :
    wp (syncWake h s now q w reason) (fun s' => SyncPost s s') := by
  rw [syncWake_eq]
  apply wp_bind
  refine wp_mono (enter_spec hI) ?_
  intro s0 ⟨hI0, hfr0⟩
  refine wp_mono (wakeBody_spec hI0) ?_
  intro s' hp
  exact SyncPost.trans_left hfr0.toMono hfr0.ev hp

end BbRe.Lemmas.SchedInv
