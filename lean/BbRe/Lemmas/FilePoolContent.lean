import BbRe.Lemmas.FilePoolWns3
/-!
The abstraction function `content` (byte `i` of a file as seen through its
sector list, the device and the hole source) and the effect of one
`writeToSectors` on it.
-/
namespace BbRe.Lemmas.FilePool
open BbRe.FilePool

/-- byte `i` of the file: device byte of the sector holding `i`, or the hole source at a hole. -/
def content (ss : Nat) (dev : Array Byte) (f : File) (i : Nat) : Byte :=
  if f.sectors.getD (i / ss) 0 = 0 then f.hole.read i
  else rd dev ((f.sectors.getD (i / ss) 0 - 1) * ss + i % ss)

/-- `p` laid over `base` at offset `off`. -/
def overlay (base : Nat → Byte) (off : Nat) (p : List Byte) (i : Nat) : Byte :=
  if off ≤ i ∧ i < off + p.length then p.getD (i - off) 0 else base i

theorem overlay_nil (base : Nat → Byte) (off i : Nat) : overlay base off [] i = base i := by
  unfold overlay; rw [if_neg]; simp

theorem pos_outside (ss t a b k : Nat) (hk : k < ss) (h : t < a ∨ a + b ≤ t) :
    t * ss + k < a * ss ∨ (a + b) * ss ≤ t * ss + k := by
  rcases h with h | h
  · left
    have := Nat.mul_le_mul_right ss (show t + 1 ≤ a by omega)
    rw [Nat.add_mul, Nat.one_mul] at this; omega
  · right
    have := Nat.mul_le_mul_right ss h
    omega

theorem div_mul_mod (i ss : Nat) : i / ss * ss + i % ss = i := by
  rw [Nat.mul_comm]; exact Nat.div_add_mod i ss

theorem div_lt_of_lt_mul' {i a ss : Nat} (h : i < a * ss) : i / ss < a := by
  rw [Nat.div_lt_iff_lt_mul (by
    rcases Nat.eq_zero_or_pos ss with h0 | h0
    · rw [h0] at h; simp at h
    · exact h0)]
  exact h

theorem nodup_nz_getD (l : List Nat) : ∀ (a b : Nat), (nz l).Nodup → l.getD a 0 = l.getD b 0 →
    l.getD a 0 ≠ 0 → a = b := by
  induction l with
  | nil => intro a b _ _ h; simp at h
  | cons x xs ih =>
    intro a b hnd heq hne
    have hnd' : (nz xs).Nodup := (nz_sublist (List.sublist_cons_self x xs)).nodup hnd
    cases a with
    | zero =>
      cases b with
      | zero => rfl
      | succ b =>
        exfalso
        simp only [List.getD_cons_zero, List.getD_cons_succ] at heq hne
        have hx : x ∈ nz xs := mem_nz.mpr ⟨(mem_iff_getD hne).mpr ⟨b, heq.symm⟩, hne⟩
        have : nz (x :: xs) = x :: nz xs := by simp [nz, hne]
        rw [this] at hnd
        exact (List.nodup_cons.mp hnd).1 hx
    | succ a =>
      cases b with
      | zero =>
        exfalso
        simp only [List.getD_cons_zero, List.getD_cons_succ] at heq hne
        have hne' : x ≠ 0 := heq ▸ hne
        have hx : x ∈ nz xs := mem_nz.mpr ⟨(mem_iff_getD hne').mpr ⟨a, heq⟩, hne'⟩
        have : nz (x :: xs) = x :: nz xs := by simp [nz, hne']
        rw [this] at hnd
        exact (List.nodup_cons.mp hnd).1 hx
      | succ b =>
        simp only [List.getD_cons_succ] at heq hne
        rw [ih a b hnd' heq hne]

theorem getD_mem_nz {l : List Nat} {q : Nat} (h : l.getD q 0 ≠ 0) : l.getD q 0 ∈ nz l :=
  mem_nz.mpr ⟨(mem_iff_getD h).mpr ⟨q, rfl⟩, h⟩

end BbRe.Lemmas.FilePool
