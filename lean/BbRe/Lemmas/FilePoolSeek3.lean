import BbRe.Lemmas.FilePoolSeek2
/-!
State-level invariant "no sector list ends in a hole" and the step-level
statement for `GetNextRegionOffset`.
-/
namespace BbRe.Lemmas.FilePool
open BbRe.FilePool

def Inv3 (st : State) : Prop :=
  0 < st.cfg.ss ∧ ∀ (i : Nat) (f : File), st.files[i]? = some f → NoTrail f.sectors

theorem step_cfg (st : State) (op : Op) (o : Oracle) : (step st op o).1.cfg = st.cfg :=
  run_cfg [(op, o)] st

theorem inv3_set {st : State} (h : Inv3 st) {i : Nat} {f' : File} (hi : i < st.files.length)
    (hf' : NoTrail f'.sectors) :
    ∀ (j : Nat) (g : File), (st.files.set i f')[j]? = some g → NoTrail g.sectors := by
  intro j g hg
  rcases getElem?_set_some hi hg with ⟨rfl, rfl⟩ | ⟨_, hg'⟩
  · exact hf'
  · exact h.2 j g hg'

theorem inv3_step {st : State} (h : Inv3 st) (op : Op) (o : Oracle) : Inv3 (step st op o).1 := by
  refine ⟨by rw [step_cfg]; exact h.1, ?_⟩
  unfold step
  dsimp only
  cases op with
  | new hole size =>
    dsimp only; rw [finish_fst]
    intro j g hg
    dsimp only at hg
    by_cases hj : j < st.files.length
    · rw [List.getElem?_append_left hj] at hg; exact h.2 j g hg
    · rw [List.getElem?_append_right (Nat.le_of_not_lt hj)] at hg
      cases hjj : j - st.files.length with
      | zero => rw [hjj] at hg; simp at hg; rw [← hg]; exact noTrail_nil
      | succ k => rw [hjj] at hg; simp at hg
  | read i off n =>
    dsimp only; split
    · exact h.2
    · rw [finish_fst]; exact h.2
  | write i off p =>
    dsimp only; split
    · exact h.2
    · rename_i f hf
      rw [finish_fst]
      have hf' := file?_some hf
      exact inv3_set h (List.getElem?_eq_some_iff.mp hf'.1).1 (writeAt_noTrail p off h.1 (h.2 i f hf'.1))
  | trunc i size =>
    dsimp only; split
    · exact h.2
    · rename_i f hf
      rw [finish_fst]
      have hf' := file?_some hf
      exact inv3_set h (List.getElem?_eq_some_iff.mp hf'.1).1 (truncate_noTrail size (h.2 i f hf'.1))
  | seek i off data =>
    dsimp only; split
    · exact h.2
    · rw [finish_fst]; exact h.2
  | len i =>
    dsimp only; split
    · exact h.2
    · rw [finish_fst]; exact h.2
  | close i =>
    dsimp only; split
    · exact h.2
    · rename_i f hf
      rw [finish_fst]
      have hf' := file?_some hf
      have : (close f (st.env o)).1.sectors = [] := by
        unfold close; dsimp only
        generalize (if f.sectors.length > 0 then (st.env o).freeList f.sectors else st.env o) = e1
        split <;> rfl
      exact inv3_set h (List.getElem?_eq_some_iff.mp hf'.1).1 (by rw [this]; exact noTrail_nil)

theorem inv3_run {st : State} (h : Inv3 st) (ops : List (Op × Oracle)) : Inv3 (run st ops) := by
  induction ops generalizing st with
  | nil => exact h
  | cons x xs ih => exact ih (inv3_step h x.1 x.2)

theorem inv3_init (c : Cfg) (hss : 0 < c.ss) : Inv3 (init c) :=
  ⟨hss, by intro i f hf; simp [init] at hf⟩

/-- `GetNextRegionOffset` on the model (no hole-source seek failure), for an offset inside the file. -/
theorem seek_spec {c : Cfg} {f : File} {e : Env} (off : Nat) (data : Bool) (hss : 0 < c.ss)
    (hs : e.faults.hs = none) (hnt : NoTrail f.sectors) (hlim : f.hole.limit ≤ f.size) (hoff : off < f.size) :
    (seek c f e (off : Int) data).1 = e ∧
      (data = true →
        ((∃ j, (seek c f e (off : Int) data).2 = .ok j ∧ off ≤ j ∧ dataAt c f j ∧
            ∀ k, off ≤ k → k < j → ¬ dataAt c f k) ∨
          ((seek c f e (off : Int) data).2 = .error .eof ∧ ∀ k, off ≤ k → ¬ dataAt c f k))) ∧
      (data = false →
        ∃ j, (seek c f e (off : Int) data).2 = .ok j ∧ off ≤ j ∧ j ≤ f.size ∧
          (∀ k, off ≤ k → k < j → dataAt c f k) ∧ (j < f.size → ¬ dataAt c f j)) := by
  unfold seek
  rw [if_neg (by omega), Int.toNat_natCast, if_neg (by omega)]
  cases data with
  | true =>
    simp only [↓reduceIte, true_implies, Bool.true_eq_false, false_implies, and_true]
    exact seekData_spec off hss hs hnt
  | false =>
    simp only [Bool.false_eq_true, ↓reduceIte, false_implies, true_implies, true_and]
    exact seekHoleLoop_spec hss hs hlim (f.size + 1) off (by omega) (by omega)

end BbRe.Lemmas.FilePool
