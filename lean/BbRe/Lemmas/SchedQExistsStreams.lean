import BbRe.Lemmas.SchedQExistsCleanup
/-!
`QExists` across the client-side segments (`Execute`, `WaitExecution`, stream wake-ups) and the
operator RPCs.
-/
namespace BbRe.Lemmas.SchedQ
open BbRe.Sched BbRe.Lemmas.SchedInv

variable {ne : Prop}

theorem map_throw' {α β} (f : α → β) (e : String) : (f <$> (throw e : M α)) = (Except.error e : M β) := rfl

theorem same_msc {s : State} (hq : QExists ne s) (X : State) (h1 : X.tasks = s.tasks) (h2 : X.workers = s.workers)
    (h3 : X.scqs = s.scqs) (h4 : X.pqs = s.pqs)
    (h5 : ∀ e' ∈ X.cleanup, ∀ q, e'.kind = .scq q → e' ∈ s.cleanup) (o : Nat) :
    QP ne s (maybeStartCleanup X o) :=
  (hq.same h1 h2 h3 h4 h5).trans ((hq.same h1 h2 h3 h4 h5).1.maybeStartCleanup o)

theorem streamSend_q {s : State} {c o : Nat} (hq : QExists ne s) : wpR ne (streamSend s c o) (QP ne s) := by
  unfold streamSend
  simp only [op?_def, task?_def]
  cases hop : alookup o s.ops with
  | none => noterr
  | some op =>
    simp only []
    cases ht : alookup op.task s.tasks with
    | none => noterr
    | some t =>
      simp only []
      split
      · split
        · noterr
        · simp only [wpR_pure]
          exact same_msc hq _ (by rfl) (by rfl) (by rfl) (by rfl) (by exact fun _ h _ _ => h) o
      · simp only [wpR_pure]
        exact hq.same (by rfl) (by rfl) (by rfl) (by rfl) (by exact fun _ h _ _ => h)

theorem streamAttach_q {s : State} {c o : Nat} (hq : QExists ne s) : wpR ne (streamAttach s c o) (QP ne s) := by
  unfold streamAttach
  simp only [op?_def]
  cases hop : alookup o s.ops with
  | none => noterr
  | some op =>
    simp only []
    have h1 := hq.removeCleanup (.op o)
    have h2 := h1.trans (h1.1.setOp { op with waiters := op.waiters + 1 })
    exact wpR_mono (streamSend_q h2.1) (fun s' hp => h2.trans hp)

theorem streamLeave_q {s : State} {c code : Nat} (hq : QExists ne s) : wpR ne (streamLeave s c code) (QP ne s) := by
  unfold streamLeave
  cases hst : s.streams.find? (fun x => x.client = c) with
  | none => noterr
  | some st =>
    simp only [op?_def]
    cases hop : alookup st.op s.ops with
    | none => noterr
    | some op =>
      simp only []
      split
      · noterr
      · simp only [wpR_pure]
        have := same_msc hq (({ s with streams := s.streams.filter (fun x => x.client ≠ c) } : State).setOp
          { op with waiters := op.waiters - 1 }) rfl rfl rfl rfl (fun _ h _ _ => h) st.op
        exact this.trans (this.1.emit _)

/-! ## routing -/

theorem route_fold_mem (l : List PQ) (init : Option PQ) (p : PQ)
    (h : l.foldl (fun best p => match best with
      | none => some p
      | some b => if p.comps.length > b.comps.length then some p else some b) init = some p) :
    init = some p ∨ p ∈ l := by
  induction l generalizing init with
  | nil => exact Or.inl h
  | cons a r ih =>
    rw [List.foldl_cons] at h
    rcases ih _ h with h1 | h1
    · cases init with
      | none => simp only [Option.some.injEq] at h1; exact Or.inr (by rw [h1]; exact List.mem_cons_self)
      | some b =>
        simp only at h1
        split at h1
        · simp only [Option.some.injEq] at h1; exact Or.inr (by rw [h1]; exact List.mem_cons_self)
        · exact Or.inl h1
    · exact Or.inr (List.mem_cons_of_mem _ h1)

theorem route_mem {s : State} {comps : List Nat} {platform : Nat} {p : PQ} (h : route s comps platform = some p) :
    p ∈ s.pqs := by
  unfold route at h
  rcases route_fold_mem _ none p h with h1 | h1
  · cases h1
  · exact (List.mem_filter.mp h1).1

/-- under `ne` a registered platform queue has a size class -/
theorem sizes_get_of_pq {s : State} (hq : QExists ne s) (hne : ne) {p : Nat} (hp : p ∈ pqIds s) (i : Nat) :
    ∃ sc, (s.sizes p)[min i ((s.sizes p).length - 1)]? = some sc := by
  obtain ⟨q, hq1, hq2⟩ := hq.pn hne p hp
  have := sizes_get_some (s := s) (q := q) hq1 i
  rw [hq2] at this; exact this

/-! ## `Execute`, `WaitExecution`, stream wake-ups -/

theorem execArrive_q {h : Hints} {s : State} {now c digest dkey : Nat} {dnc : Bool} {comps : List Nat}
    {platform : Nat} {inv : List Nat} {prio : Int} (hq : QExists ne s) (hI : Inv s) :
    wpR ne (execArrive h s now c digest dkey dnc comps platform inv prio) (QExists ne) := by
  unfold execArrive
  apply wpR_bind
  refine wpR_mono (enter_q hq hI) ?_
  intro s1 ⟨h1, _⟩
  split
  · rename_i tid _
    simp only [task?_def]
    cases ht : alookup tid s1.tasks with
    | none => noterr
    | some t =>
      simp only []
      have h2 := h1.emit .selAbandoned
      split
      · exact wpR_mono (streamAttach_q h2.1) (fun s' hp => hp.1)
      · split
        · noterr
        · have hok := taskOK_of_lookup h1 ht
          have h3 : QP ne s1 (({ emit s1 .selAbandoned with nextOp := (emit s1 .selAbandoned).nextOp + 1 } : State).setOp
              { name := (emit s1 .selAbandoned).nextOp, task := tid, inv := inv, prio := prio, waiters := 0, mayExistWithoutWaiters := false }) :=
            h1.same rfl rfl rfl rfl (fun _ h _ _ => h)
          have h4 := h3.1.setTask { t with ops := t.ops ++ [(emit s1 .selAbandoned).nextOp] } (by
            intro hr; obtain ⟨a, b⟩ := hok hr; exact ⟨(h3.2.hasScq _).mpr a, b⟩)
          exact wpR_mono (streamAttach_q h4.1) (fun s' hp => hp.1)
  · split
    · simp only [wpR_pure]
      exact (h1.same (by rfl) (by rfl) (by rfl) (by rfl) (by exact fun _ h _ _ => h)).1
    · rename_i pq hroute
      have hpm : pq.id ∈ pqIds s1 := List.mem_map.mpr ⟨pq, route_mem hroute, rfl⟩
      cases hsz : (s1.sizes pq.id)[min h.sel ((s1.sizes pq.id).length - 1)]? with
      | none =>
        simp only [hsz]
        simp only [wpR_throw, BadErr, routingErrors, sizelessError]
        rintro (hbad | ⟨hne, _⟩)
        · simp at hbad
        · obtain ⟨sc, hsc⟩ := sizes_get_of_pq h1 hne hpm h.sel
          rw [hsz] at hsc; cases hsc
      | some sc =>
        simp only [hsz]
        have hsq : HasScq s1 ⟨pq.id, sc⟩ := hasScq_of_sizes_get hsz
        cases dnc <;> simp only [Bool.false_eq_true, if_true, if_false] <;>
        · apply wpR_bind
          refine wpR_mono (schedule_q (h := h) ?a) ?b
          case a => exact (newTask_q h1 _ (by rfl) (by rfl) (by rfl) (by rfl) (by rfl) _ hsq (by rfl) _).1
          case b =>
            intro s' hp
            exact wpR_mono (streamAttach_q hp.1) (fun s'' hp' => hp'.1)

theorem waitArrive_q {h : Hints} {s : State} {now c name : Nat} (hq : QExists ne s) (hI : Inv s) :
    wpR ne (waitArrive h s now c name) (QExists ne) := by
  unfold waitArrive
  apply wpR_bind
  refine wpR_mono (enter_q hq hI) ?_
  intro s1 ⟨h1, _⟩
  split
  · simp only [wpR_pure]; exact (h1.emit _).1
  · exact wpR_mono (streamAttach_q h1) (fun s' hp => hp.1)

theorem streamWake_q {h : Hints} {s : State} {now c reason : Nat} (hq : QExists ne s) (hI : Inv s) :
    wpR ne (streamWake h s now c reason) (QExists ne) := by
  unfold streamWake
  apply wpR_bind
  refine wpR_mono (enter_q hq hI) ?_
  intro s1 ⟨h1, _⟩
  cases hst : s1.streams.find? (fun x => x.client = c) with
  | none => simp only [hst]; noterr
  | some st =>
    simp only [hst]
    split
    · exact wpR_mono (streamLeave_q h1) (fun s' hp => hp.1)
    · split
      · simp only [op?_def, task?_def]
        cases hop : alookup st.op s1.ops with
        | none => noterr
        | some op =>
          simp only []
          cases ht : alookup op.task s1.tasks with
          | none => noterr
          | some t =>
            simp only []
            split
            · noterr
            · exact wpR_mono (streamSend_q h1) (fun s' hp => hp.1)
      · exact wpR_mono (streamSend_q h1) (fun s' hp => hp.1)

/-! ## operator RPCs -/

theorem killOp_q {h : Hints} {s : State} {now name code : Nat} (hq : QExists ne s) (hI : Inv s) :
    wpR ne (killOp h s now name code) (QExists ne) := by
  unfold killOp
  apply wpR_bind
  refine wpR_mono (enter_q hq hI) ?_
  intro s1 ⟨h1, _⟩
  split
  · simp only [wpR_pure]; exact (h1.emit _).1
  · apply wpR_bind
    refine wpR_mono (complete_q h1) ?_
    intro s2 h2
    simp only [wpR_pure]; exact (h2.1.emit _).1

theorem killQueue_q {h : Hints} {s : State} {now : Nat} {q : ScqId} {code : Nat} (hq : QExists ne s) (hI : Inv s) :
    wpR ne (killQueue h s now q code) (QExists ne) := by
  unfold killQueue
  apply wpR_bind
  refine wpR_mono (enter_q hq hI) ?_
  intro s1 ⟨h1, _⟩
  split
  · simp only [wpR_pure]; exact (h1.emit _).1
  · split
    · simp only [wpR_pure]; exact (h1.emit _).1
    · apply wpR_bind
      refine wpR_mono (cancelAllQueued_q h1) ?_
      intro s2 h2
      simp only [wpR_pure]; exact (h2.1.emit _).1

theorem mem_wset_scq {ws : List Worker} {x : Worker} (w : Worker) (h : x ∈ ws) : ∃ x' ∈ wset ws w, x'.scq = x.scq := by
  unfold wset
  by_cases hc : x.scq = w.scq ∧ x.id = w.id
  · exact ⟨w, List.mem_map.mpr ⟨x, h, by rw [if_pos hc]⟩, hc.1.symm⟩
  · exact ⟨x, List.mem_map.mpr ⟨x, h, by rw [if_neg hc]⟩, rfl⟩

theorem foldl_wake_q (c : Worker → Prop) [DecidablePred c] (l : List Worker) {s : State} (hq : QExists ne s)
    (hl : ∀ w ∈ l, ∃ wk ∈ s.workers, wk.scq = w.scq) :
    QP ne s (l.foldl (fun s w => if c w then wakeWorker s w else s) s) := by
  induction l generalizing s with
  | nil => exact ⟨hq, QFr.refl s⟩
  | cons a r ih =>
    rw [List.foldl_cons]
    by_cases hc : c a
    · rw [if_pos hc]
      have h1 : QP ne s (wakeWorker s a) := hq.setWorker _ (hl a List.mem_cons_self)
      refine h1.trans (ih h1.1 ?_)
      intro w hw
      obtain ⟨wk, a1, b1⟩ := hl w (List.mem_cons_of_mem _ hw)
      obtain ⟨x', a2, b2⟩ := mem_wset_scq { a with parked := false, woken := true } a1
      exact ⟨x', a2, b2.trans b1⟩
    · rw [if_neg hc]
      exact ih hq (fun w hw => hl w (List.mem_cons_of_mem _ hw))

theorem addDrain_q {h : Hints} {s : State} {now : Nat} {q : ScqId} {p : Pattern} (hq : QExists ne s) (hI : Inv s) :
    wpR ne (addDrain h s now q p) (QExists ne) := by
  unfold addDrain
  apply wpR_bind
  refine wpR_mono (enter_q hq hI) ?_
  intro s1 ⟨h1, _⟩
  split
  · simp only [wpR_pure]; exact (h1.emit _).1
  · rename_i sq _
    simp only [wpR_pure]
    have h2 := h1.setScq { sq with drains := if sq.drains.contains p then sq.drains else sq.drains ++ [p] }
    have h3 := foldl_wake_q (fun w => w.scq = q ∧ w.parked = true ∧ p.matches w.id = true) s1.workers h2.1
      (fun w hw => ⟨w, hw, rfl⟩)
    exact (h3.1.emit .opOk).1

theorem removeDrain_q {h : Hints} {s : State} {now : Nat} {q : ScqId} {p : Pattern} (hq : QExists ne s) (hI : Inv s) :
    wpR ne (removeDrain h s now q p) (QExists ne) := by
  unfold removeDrain
  apply wpR_bind
  refine wpR_mono (enter_q hq hI) ?_
  intro s1 ⟨h1, _⟩
  split
  · simp only [wpR_pure]; exact (h1.emit _).1
  · simp only [wpR_pure]
    exact ((h1.setScq _).1.emit _).1

theorem termStep_q {s : State} (hq : QExists ne s) (w : Worker) :
    QP ne s (match s.worker? w.scq w.id with
    | some w =>
      let s := s.setWorker { w with terminating := true }
      if w.task.isNone ∧ w.parked then
        match s.worker? w.scq w.id with | some w' => wakeWorker s w' | none => s
      else s
    | none => s) := by
  simp only [worker?_def]
  split
  · rename_i w0 hw0
    have h1 := hq.setWorker { w0 with terminating := true } ⟨w0, wfind_mem hw0, rfl⟩
    split
    · split
      · rename_i w' hw'
        exact h1.trans (h1.1.wakeWorker w' (wfind_mem hw'))
      · exact h1
    · exact h1
  · exact ⟨hq, QFr.refl s⟩

theorem terminate_q {h : Hints} {s : State} {now id : Nat} {p : Pattern} (hq : QExists ne s) (hI : Inv s) :
    wpR ne (terminate h s now id p) (QExists ne) := by
  unfold terminate
  apply wpR_bind
  refine wpR_mono (enter_q hq hI) ?_
  intro s1 ⟨h1, _⟩
  have hfold : ∀ (l : List Worker) (s : State), QExists ne s → QExists ne (l.foldl (fun s w =>
      match s.worker? w.scq w.id with
      | some w =>
        let s := s.setWorker { w with terminating := true }
        if w.task.isNone ∧ w.parked then
          match s.worker? w.scq w.id with | some w' => wakeWorker s w' | none => s
        else s
      | none => s) s) := by
    intro l
    induction l with
    | nil => intro s hs; exact hs
    | cons a r ih =>
      intro s hs
      rw [List.foldl_cons]
      exact ih _ (termStep_q hs a).1
  have h2 := hfold (s1.workers.filter (fun w => p.matches w.id)) s1 h1
  dsimp only
  split
  · simp only [wpR_pure]; exact (h2.emit _).1
  · simp only [wpR_pure]
    exact (h2.same (by rfl) (by rfl) (by rfl) (by rfl) (by exact fun _ h _ _ => h)).1

theorem termWake_q {s : State} {id reason : Nat} (hq : QExists ne s) :
    wpR ne (termWake s id reason) (QExists ne) := by
  unfold termWake
  cases htc : s.terms.find? (fun t => t.id = id) with
  | none => simp only [htc]; noterr
  | some tc =>
    simp only [htc]
    split
    · simp only [wpR_pure]
      exact (hq.same (by rfl) (by rfl) (by rfl) (by rfl) (by exact fun _ h _ _ => h)).1
    · split
      · noterr
      · simp only [wpR_pure]
        exact (hq.same (by rfl) (by rfl) (by rfl) (by rfl) (by exact fun _ h _ _ => h)).1

end BbRe.Lemmas.SchedQ
