import BbRe.Lemmas.SchedLiveWorker7
import BbRe.Lemmas.SchedLiveWake
/-!
Wake-up invariant of blocked `TerminateWorkers` calls (C02 `no_lost_wakeup`):
each captured `(task, generation)` pair is not ahead of the task's generation,
and as soon as the task is no longer executing (no worker, or completed) the
generation has moved on — the captured channel is closed.
-/
namespace BbRe.Lemmas.SchedLive
open BbRe.Sched

def TermInv (s : State) : Prop :=
  ∀ tc ∈ s.terms, ∀ tg ∈ tc.waits, tg.1 < s.nextTask ∧
    ∀ tk, s.task? tg.1 = some tk → tg.2 ≤ tk.gen ∧ ((tk.worker = none ∨ tk.response.isSome = true) → tg.2 < tk.gen)

theorem streamAttach_terms {s s' : State} {c o : Nat} (hh : streamAttach s c o = .ok s') : s'.terms = s.terms := by
  obtain ⟨op, _, h1⟩ := streamAttach_ok hh
  obtain ⟨op', t, _, _, ⟨r, _, _, rfl⟩ | ⟨_, rfl⟩⟩ := streamSend_ok h1 <;> simp [attachS]

/-- which segments touch the list of blocked `TerminateWorkers` calls -/
theorem step_terms {s s' : State} {g : Seg} (hstep : step s g = .ok s') :
    s'.terms = s.terms ∨
    (∃ h now id p s1, g = .terminate h now id p ∧ enter h s now = .ok s1 ∧ s'.tasks = s1.tasks ∧
      s'.nextTask = s1.nextTask ∧
      s'.terms = ⟨id, termWaits ((s1.workers.filter (fun w => p.matches w.id)).foldl termMark s1)
        (s1.workers.filter (fun w => p.matches w.id))⟩ :: s.terms) ∨
    (∃ id reason, g = .termWake id reason ∧ s'.terms = s.terms.filter (fun t => t.id ≠ id)) := by
  cases g with
  | register id comps pf sizes bm bp => simp only [step, pure_ok] at hstep; subst hstep; exact .inl rfl
  | exec h now c0 d dk dnc comps pf inv prio =>
    left
    obtain ⟨s1, h1, h2 | h2 | h2⟩ := execArrive_ok hstep
    · obtain ⟨tid, t, _, _, ⟨o, _, h3⟩ | ⟨_, h3⟩⟩ := h2
      · rw [streamAttach_terms h3]; exact (enter_frame h1).terms
      · rw [streamAttach_terms h3]; exact (enter_frame h1).terms
    · obtain ⟨_, _, rfl⟩ := h2; exact (enter_frame h1).terms
    · obtain ⟨_, pq, sc, s3, _, _, h3, h4⟩ := h2
      rw [streamAttach_terms h4, (schedule_frame h3).terms]; simp only [newTaskS_terms]; exact (enter_frame h1).terms
  | wait h now c0 name =>
    left
    obtain ⟨s1, h1, ⟨_, rfl⟩ | ⟨op, _, h2⟩⟩ := waitArrive_ok hstep
    · exact (enter_frame h1).terms
    · rw [streamAttach_terms h2]; exact (enter_frame h1).terms
  | streamWake h now c0 reason =>
    left
    obtain ⟨s1, st, h1, _, ⟨_, h3⟩ | ⟨_, _, h3⟩⟩ := streamWake_ok hstep
    · obtain ⟨st', op, _, _, _, rfl⟩ := streamLeave_ok h3
      simp only [leaveS_terms]; exact (enter_frame h1).terms
    · obtain ⟨op', t, _, _, ⟨r, _, _, rfl⟩ | ⟨_, rfl⟩⟩ := streamSend_ok h3
      · simp only [sendDone_terms]; exact (enter_frame h1).terms
      · simp only [sendPark_terms]; exact (enter_frame h1).terms
  | sync h now q comps pf w rep pi => exact .inl (syncArrive_frame hstep).terms
  | syncWake h now q w reason => exact .inl (syncWake_frame hstep).terms
  | killOp h now name code => exact .inl (killOp_frame hstep).terms
  | killQueue h now q code => exact .inl (killQueue_frame hstep).terms
  | addDrain h now q p => exact .inl (addDrain_frame hstep).terms
  | removeDrain h now q p => exact .inl (removeDrain_frame hstep).terms
  | terminate h now id p =>
    obtain ⟨s1, h1, h2⟩ := terminate_ok hstep
    simp only at h2
    have e := (foldl_frame termMark termMark_frame (s1.workers.filter (fun w => p.matches w.id)) s1).terms
    rcases h2 with ⟨_, rfl⟩ | ⟨_, rfl⟩
    · left; show ((s1.workers.filter (fun w => p.matches w.id)).foldl termMark s1).terms = s.terms
      rw [e]; exact (enter_frame h1).terms
    · right; left
      obtain ⟨f1, _, f3, _, _⟩ := foldl_fields termMark
        (by intro a b; unfold termMark; (repeat' split) <;> exact ⟨rfl, rfl, rfl, rfl, rfl⟩)
        (s1.workers.filter (fun w => p.matches w.id)) s1
      refine ⟨h, now, id, p, s1, rfl, h1, f1, f3, ?_⟩
      simp only [addTerm_terms, e, (enter_frame h1).terms]
  | termWake id reason =>
    right; right
    obtain ⟨tc, _, ⟨_, rfl⟩ | ⟨_, _, rfl⟩⟩ := termWake_ok hstep <;> exact ⟨id, reason, rfl, rfl⟩
  | touch h now => exact .inl (enter_frame hstep).terms

theorem termInv_step {s s' : State} {g : Seg} (hkw : KW s) (hi : TermInv s) (hstep : step s g = .ok s') :
    TermInv s' := by
  obtain ⟨hk', rel⟩ := step_tstep hstep hkw.1
  -- a pair that was fine before is fine after (generations only grow, and grow on every change)
  have old : ∀ tg : Nat × Nat, (tg.1 < s.nextTask ∧ ∀ tk, s.task? tg.1 = some tk → tg.2 ≤ tk.gen ∧
        ((tk.worker = none ∨ tk.response.isSome = true) → tg.2 < tk.gen)) →
      (tg.1 < s'.nextTask ∧ ∀ tk, s'.task? tg.1 = some tk → tg.2 ≤ tk.gen ∧
        ((tk.worker = none ∨ tk.response.isSome = true) → tg.2 < tk.gen)) := by
    intro tg ⟨hlt, hold⟩
    refine ⟨Nat.lt_of_lt_of_le hlt rel.nt, ?_⟩
    intro tk' e'
    obtain ⟨tk, e, le⟩ := rel.tasks _ _ hlt e'
    obtain ⟨a, b⟩ := hold tk e
    have := le.gen
    refine ⟨by omega, ?_⟩
    intro hcond
    by_cases hsame : tk'.worker = tk.worker ∧ tk'.response = tk.response
    · have := b (by rw [← hsame.1, ← hsame.2]; exact hcond); omega
    · have := le.bump (by
        by_cases h1 : tk'.worker = tk.worker
        · exact .inr (fun h2 => hsame ⟨h1, h2⟩)
        · exact .inl h1)
      omega
  rcases step_terms hstep with e | ⟨h, now, id, p, s1, rfl, h1, et, ent, e⟩ | ⟨id, reason, _, e⟩
  · intro tc htc tg htg; rw [e] at htc; exact old tg (hi tc htc tg htg)
  · intro tc htc tg htg
    rw [e] at htc
    rcases List.mem_cons.1 htc with rfl | htc
    · -- freshly captured pairs
      obtain ⟨hk1, hw1⟩ := enter_kw h1 hkw
      obtain ⟨f1, _, f3, _, _⟩ := foldl_fields termMark
        (by intro a b; unfold termMark; (repeat' split) <;> exact ⟨rfl, rfl, rfl, rfl, rfl⟩)
        (s1.workers.filter (fun w => p.matches w.id)) s1
      simp only [termWaits, List.mem_filterMap] at htg
      obtain ⟨wk, hwm, hcap⟩ := htg
      have hm : wk ∈ s1.workers := (List.mem_filter.1 hwm).1
      cases htk : wk.task with
      | none => simp [htk] at hcap
      | some t =>
        simp only [htk] at hcap
        have hlk : ((s1.workers.filter (fun w => p.matches w.id)).foldl termMark s1).task? t = s1.task? t := by
          simp [State.task?, f1]
        rw [hlk] at hcap
        cases hts : s1.task? t with
        | none => simp [hts] at hcap
        | some tk =>
          simp only [hts, Option.some.injEq] at hcap
          subst hcap
          obtain ⟨plt, pptr⟩ := (hw1.ok wk hm).ptr t htk
          obtain ⟨pw, pr⟩ := pptr tk hts
          refine ⟨by rw [ent]; exact plt, ?_⟩
          intro tk' e'
          simp only [State.task?, et] at e'
          have hts' : alookup t s1.tasks = some tk := hts
          rw [hts'] at e'; injection e' with e'; subst e'
          refine ⟨Nat.le_refl _, ?_⟩
          rintro (h' | h')
          · rw [pw] at h'; cases h'
          · rw [pr] at h'; cases h'
    · exact old tg (hi tc htc tg htg)
  · intro tc htc tg htg
    rw [e] at htc
    exact old tg (hi tc (List.mem_filter.1 htc).1 tg htg)

theorem termInv_reachable {s : State} (hs : Reachable s) : TermInv s := by
  induction hs with
  | init cfg => intro tc htc; simp [State.init] at htc
  | step g hr hstep ih => exact termInv_step (kw_reachable hr) ih hstep

end BbRe.Lemmas.SchedLive
