import BbRe.Lemmas.ProtoStoreBasic
/-! Structural invariant of `Model/ProtoStore.lean`, valid for every `Config`. -/
namespace BbRe.Lemmas.ProtoStore
open BbRe.ProtoStore

structure QInv (s : State) : Prop where
  q1 : Q1 s.queue s.idx
  q2 : ∀ h, s.idx h ≠ none → s.useCount h = 0
  acct : ∀ h, s.useCount h = s.held h + refs s.gets h
  mapLt : ∀ d h, s.map d = some h → h < s.nextH
  fresh : ∀ h, s.nextH ≤ h → s.useCount h = 0 ∧ s.idx h = none
  keys : KeysNodup s.gets
  wlt : ∀ g r w, lookupG s.gets g = some r → w ∈ r.writes → w.h < s.nextH
  nopanic : s.panicked = false

theorem qinv_init : QInv init := by
  constructor <;> simp [init, Q1, refs, KeysNodup, lookupG]

/-- What `increaseUseCount` does, given consistent queue indices. -/
theorem increaseUseCount_spec (s : State) (h : Nat) (hq : Q1 s.queue s.idx) :
    ∃ q' idx', increaseUseCount s h =
        { s with useCount := upd s.useCount h (s.useCount h + 1), queue := q', idx := idx' } ∧
      Q1 q' idx' ∧ idx' h = none ∧ (∀ x, x ≠ h → (idx' x ≠ none ↔ s.idx x ≠ none)) := by
  unfold increaseUseCount
  cases hi : s.idx h with
  | none =>
    refine ⟨s.queue, s.idx, ?_, hq, hi, fun x _ => Iff.rfl⟩
    simp [hi]
  | some i =>
    simp only [hi]
    cases hl : s.queue.getLast? with
    | none =>
      exfalso
      have hqi : s.queue[i]? = some h := (hq i h).2 hi
      have : s.queue = [] := by simpa using hl
      rw [this] at hqi; simp at hqi
    | some last =>
      obtain ⟨h1, h2, h3⟩ := q1_swapRemove s.queue s.idx h i last hq hi hl
      refine ⟨_, _, ?_, h3, by simp, ?_⟩
      · have : ¬ (i ≥ s.queue.length ∨ s.idx last ≠ some (s.queue.length - 1)) := by
          intro hc; rcases hc with hc | hc
          · omega
          · exact hc h2
        simp [this]
      · intro x hx
        simp only [upd_apply, hx, if_false]
        by_cases hxl : x = last
        · subst hxl; simp [h2]
        · simp [hxl]

theorem lt_of_useCount_pos (s : State) (hq : QInv s) (h : Nat) (hp : 0 < s.useCount h) : h < s.nextH := by
  apply Classical.byContradiction
  intro hn
  have := (hq.fresh h (by omega)).1
  omega

/-- `removeOrQueue` on a state whose accounting is expressed by `acct'`. -/
theorem qinv_removeOrQueue (cfg : Config) (s : State) (h : Nat) (hq : QInv s) (hlt : h < s.nextH) :
    QInv (removeOrQueue cfg s h) := by
  unfold removeOrQueue
  split
  · rename_i hc
    split
    · refine { hq with mapLt := ?_ }
      intro d x hx
      simp only [upd_apply] at hx
      split at hx
      · cases hx
      · exact hq.mapLt d x hx
    · split
      · rename_i hi
        refine { hq with q1 := q1_push _ _ _ hq.q1 hi, q2 := ?_, fresh := ?_ }
        · intro x hx
          simp only [upd_apply] at hx
          split at hx
          · rename_i hxh; subst hxh; exact hc.1
          · exact hq.q2 x hx
        · intro x hx
          have := hq.fresh x hx
          refine ⟨this.1, ?_⟩
          simp only [upd_apply]
          have : x ≠ h := by
            intro he; subst he; exact absurd hlt (by simpa using hx)
          simp [this, (hq.fresh x hx).2]
      · exact hq
  · exact hq
theorem lt_of_refs_pos (s : State) (hq : QInv s) (h : Nat) (hp : 0 < refs s.gets h) : h < s.nextH :=
  lt_of_useCount_pos s hq h (by have := hq.acct h; omega)

theorem qinv_of_eq (s s' : State) (hq : QInv s) (h1 : s'.queue = s.queue) (h2 : s'.idx = s.idx)
    (h3 : s'.useCount = s.useCount) (h4 : s'.held = s.held) (h5 : s'.gets = s.gets)
    (h6 : s'.map = s.map) (h7 : s'.nextH = s.nextH) (h8 : s'.panicked = s.panicked) : QInv s' := by
  constructor
  · rw [h1, h2]; exact hq.q1
  · rw [h2, h3]; exact hq.q2
  · rw [h3, h4, h5]; exact hq.acct
  · rw [h6, h7]; exact hq.mapLt
  · rw [h7, h3, h2]; exact hq.fresh
  · rw [h5]; exact hq.keys
  · rw [h5, h7]; exact hq.wlt
  · rw [h8]; exact hq.nopanic

theorem qinv_setG (s : State) (g : Nat) (r r' : GetRec) (hq : QInv s)
    (hr : lookupG s.gets g = some r) (he : r'.existing = r.existing)
    (hw : ∀ w, w ∈ r'.writes → w ∈ r.writes ∨ w.h < s.nextH) :
    QInv { s with gets := setG s.gets g r' } := by
  refine { hq with acct := ?_, keys := keysNodup_setG _ _ _ hq.keys, wlt := ?_ }
  · intro x
    dsimp only
    rw [refs_setG_same _ _ _ r _ hr he]
    exact hq.acct x
  · intro g' r'' w hl hw'
    dsimp only at hl ⊢
    simp only [lookupG_setG] at hl
    split at hl
    · cases hl
      rcases hw w hw' with h | h
      · exact hq.wlt g r w hr h
      · exact h
    · exact hq.wlt g' r'' w hl hw'

theorem findWrite_some (ws : List Write) (h : Nat) (w : Write) (hf : findWrite ws h = some w) :
    w ∈ ws ∧ w.h = h := by
  unfold findWrite at hf
  refine ⟨List.mem_of_find?_eq_some hf, ?_⟩
  have := List.find?_some hf
  simpa using this

theorem qinv_release (cfg : Config) (s : State) (h : Nat) (dirty : Bool) (hq : QInv s) :
    QInv (release cfg s h dirty) := by
  unfold release
  split
  · exact hq
  · rename_i hheld
    have hpos : 0 < s.useCount h := by have := hq.acct h; omega
    have hlt := lt_of_useCount_pos s hq h hpos
    unfold decreaseUseCount
    dsimp only
    apply qinv_removeOrQueue
    case hlt => exact hlt
    refine { hq with q2 := ?_, acct := ?_, fresh := ?_ }
    · intro x hx
      simp only [upd_apply]
      split
      · rename_i hxh; subst hxh; have := hq.q2 x hx; omega
      · exact hq.q2 x hx
    · intro x
      simp only [upd_apply]
      split
      · rename_i hxh; subst hxh; have := hq.acct x; omega
      · exact hq.acct x
    · intro x hx
      have := hq.fresh x hx
      simp only [upd_apply]
      split
      · rename_i hxh; subst hxh; exact ⟨by omega, this.2⟩
      · exact this

theorem qinv_readDone (s : State) (g : Nat) (ok : Bool) (hq : QInv s) : QInv (readDone s g ok) := by
  unfold readDone
  split
  · rename_i r hr
    split
    · exact qinv_setG s g r _ hq hr rfl (fun w hw => Or.inl hw)
    · exact hq
  · exact hq

theorem qinv_putDone (cfg : Config) (s : State) (g h : Nat) (o : PutOutcome) (hq : QInv s) :
    QInv (putDone cfg s g h o) := by
  unfold putDone
  split
  · rename_i r hr
    split
    · rename_i w hw
      obtain ⟨hmem, hwh⟩ := findWrite_some _ _ _ hw
      have hlt : h < s.nextH := by rw [← hwh]; exact hq.wlt g r w hr hmem
      dsimp only
      apply qinv_removeOrQueue
      case hlt => exact hlt
      have key := qinv_setG s g r
        { r with writes := r.writes.filter (fun w' => w'.h != h), failed := r.failed || decide (o ≠ .ok) }
        hq hr rfl (by intro w' hw'; exact Or.inl (List.mem_filter.1 hw').1)
      exact qinv_of_eq _ _ key rfl rfl rfl rfl rfl rfl rfl rfl
    · exact hq
  · exact hq

/-- `decreaseUseCount` of a handle that has one reference more than the accounting says. -/
theorem qinv_decrease (cfg : Config) (s : State) (h : Nat)
    (q1 : Q1 s.queue s.idx) (q2 : ∀ x, s.idx x ≠ none → s.useCount x = 0)
    (acct : ∀ x, s.useCount x = s.held x + refs s.gets x + (if x = h then 1 else 0))
    (mapLt : ∀ d x, s.map d = some x → x < s.nextH)
    (fresh : ∀ x, s.nextH ≤ x → s.useCount x = 0 ∧ s.idx x = none)
    (keys : KeysNodup s.gets)
    (wlt : ∀ g r w, lookupG s.gets g = some r → w ∈ r.writes → w.h < s.nextH)
    (np : s.panicked = false) : QInv (decreaseUseCount cfg s h) := by
  unfold decreaseUseCount
  have hpos : 0 < s.useCount h := by have := acct h; simp at this; omega
  have hlt : h < s.nextH := by
    apply Classical.byContradiction
    intro hn
    have := (fresh h (by omega)).1
    omega
  apply qinv_removeOrQueue
  case hlt => exact hlt
  refine ⟨q1, ?_, ?_, mapLt, ?_, keys, wlt, np⟩
  · intro x hx
    simp only [upd_apply]
    split
    · rename_i hxh; subst hxh; have := q2 x hx; omega
    · exact q2 x hx
  · intro x
    simp only [upd_apply]
    have := acct x
    split
    · rename_i hxh; subst hxh; simp at this; omega
    · rename_i hxh; simp [hxh] at this; exact this
  · intro x hx
    have := fresh x hx
    simp only [upd_apply]
    split
    · rename_i hxh; subst hxh; exact ⟨by omega, this.2⟩
    · exact this

theorem lookupG_eraseG (gs : List (Nat × GetRec)) (g g' : Nat) (r : GetRec) (hk : KeysNodup gs)
    (hl : lookupG (eraseG gs g) g' = some r) : g' ≠ g ∧ lookupG gs g' = some r := by
  by_cases h : g = g'
  · subst h
    rw [lookupG_eraseG_self gs g hk] at hl
    cases hl
  · rw [lookupG_eraseG_ne gs g g' h] at hl
    exact ⟨fun he => h he.symm, hl⟩

theorem qinv_getEnd (cfg : Config) (s : State) (g : Nat) (hq : QInv s) : QInv (getEnd cfg s g) := by
  unfold getEnd
  split
  · rename_i r hr
    split
    · exact hq
    · have hwlt : ∀ g' r' w, lookupG (eraseG s.gets g) g' = some r' → w ∈ r'.writes → w.h < s.nextH := by
        intro g' r' w hl hw
        exact hq.wlt g' r' w (lookupG_eraseG _ _ _ _ hq.keys hl).2 hw
      have hkeys := keysNodup_eraseG s.gets g hq.keys
      have hrefs := fun x => refs_eraseG s.gets g x r hr
      dsimp only
      split
      · -- failed
        split
        · rename_i h he
          apply qinv_decrease
          · exact hq.q1
          · exact hq.q2
          · intro x
            dsimp only
            have := hrefs x
            have := hq.acct x
            rw [he] at *
            by_cases hx : x = h
            · subst hx; simp at *; omega
            · have h1 : ¬ (some h = some x) := by simpa using (fun e => hx e.symm)
              simp [h1, hx] at *; omega
          · exact hq.mapLt
          · exact hq.fresh
          · exact hkeys
          · exact hwlt
          · exact hq.nopanic
        · rename_i he
          refine { hq with acct := ?_, keys := hkeys, wlt := hwlt }
          intro x
          have := hrefs x
          have := hq.acct x
          simp [he] at *
          omega
      · split
        · rename_i h he
          refine { hq with acct := ?_, keys := hkeys, wlt := hwlt }
          intro x
          dsimp only
          have := hrefs x
          have := hq.acct x
          rw [he] at *
          simp only [upd_apply]
          by_cases hx : x = h
          · subst hx; simp at *; omega
          · have h1 : ¬ (some h = some x) := by simpa using (fun e => hx e.symm)
            simp [h1, hx] at *; omega
        · rename_i he
          have hacct : ∀ x, s.useCount x = s.held x + refs (eraseG s.gets g) x := by
            intro x
            have := hrefs x
            have := hq.acct x
            simp [he] at *
            omega
          split
          · rename_i e hm
            obtain ⟨q', idx', heq, hq1, hie, hix⟩ :=
              increaseUseCount_spec { s with gets := eraseG s.gets g } e hq.q1
            rw [heq]
            have helt := hq.mapLt _ _ hm
            refine ⟨hq1, ?_, ?_, hq.mapLt, ?_, hkeys, hwlt, hq.nopanic⟩
            · intro x hx
              dsimp only at hx ⊢
              simp only [upd_apply]
              by_cases hxe : x = e
              · subst hxe; exact absurd hie hx
              · simp only [hxe, if_false]
                exact hq.q2 x ((hix x hxe).1 hx)
            · intro x
              dsimp only
              simp only [upd_apply]
              have := hacct x
              split
              · rename_i hxe; subst hxe; omega
              · exact this
            · intro x hx
              dsimp only at hx ⊢
              have hxe : x ≠ e := by omega
              have := hq.fresh x hx
              simp only [upd_apply, hxe, if_false]
              refine ⟨this.1, ?_⟩
              apply Classical.byContradiction
              intro hc
              exact ((hix x hxe).1 hc) this.2
          · rename_i hm
            refine ⟨?_, ?_, ?_, ?_, ?_, hkeys, ?_, hq.nopanic⟩
            · intro i x
              dsimp only
              simp only [upd_apply]
              split
              · rename_i hx
                subst hx
                have := hq.q1 i s.nextH
                rw [(hq.fresh s.nextH (Nat.le_refl _)).2] at this
                simp at this ⊢
                simpa using this
              · exact hq.q1 i x
            · intro x hx
              dsimp only at hx ⊢
              simp only [upd_apply] at hx ⊢
              split
              · rename_i hxn; simp [hxn] at hx
              · rename_i hxn; simp only [hxn, if_false] at hx; exact hq.q2 x hx
            · intro x
              dsimp only
              simp only [upd_apply]
              have := hacct x
              split
              · rename_i hxn
                subst hxn
                have := (hq.fresh s.nextH (Nat.le_refl _)).1
                omega
              · exact this
            · intro d x hx
              dsimp only at hx ⊢
              simp only [upd_apply] at hx
              split at hx
              · cases hx; omega
              · have := hq.mapLt d x hx; omega
            · intro x hx
              dsimp only at hx ⊢
              have hxn : x ≠ s.nextH := by omega
              simp only [upd_apply, hxn, if_false]
              exact hq.fresh x (by omega)
            · intro g' r' w hl hw
              have := hwlt g' r' w hl hw
              dsimp only
              omega
  · exact hq

theorem lt_of_queued (s : State) (hq : QInv s) (h : Nat) (hi : s.idx h ≠ none) : h < s.nextH := by
  apply Classical.byContradiction
  intro hn
  exact hi (hq.fresh h (by omega)).2

/-- What `dequeueOne` does when there is something to dequeue. -/
theorem dequeueOne_eq (s : State) (g h : Nat) (r : GetRec) (hq : Q1 s.queue s.idx)
    (hl : s.queue.getLast? = some h) (hr : lookupG s.gets g = some r) :
    dequeueOne s g = { s with
      queue := s.queue.dropLast
      idx := upd s.idx h none
      wg := upd s.wg h (some g)
      gets := setG s.gets g { r with writes := r.writes ++ [⟨h, s.msg h, s.current h⟩] } } := by
  unfold dequeueOne
  have := (q1_pop s.queue s.idx h hq hl).1
  simp [hl, hr, this]

theorem qinv_dequeueOne (s : State) (g : Nat) (hq : QInv s) : QInv (dequeueOne s g) := by
  cases hl : s.queue.getLast? with
  | none => unfold dequeueOne; simp [hl]; exact hq
  | some h =>
    cases hr : lookupG s.gets g with
    | none => unfold dequeueOne; simp [hl, hr]; exact hq
    | some r =>
      rw [dequeueOne_eq s g h r hq.q1 hl hr]
      obtain ⟨hidx, hq1⟩ := q1_pop s.queue s.idx h hq.q1 hl
      have hlt : h < s.nextH := lt_of_queued s hq h (by rw [hidx]; simp)
      have key := qinv_setG s g r { r with writes := r.writes ++ [⟨h, s.msg h, s.current h⟩] } hq hr rfl
        (by
          intro w hw
          simp only [List.mem_append, List.mem_singleton] at hw
          rcases hw with hw | hw
          · exact Or.inl hw
          · right; rw [hw]; exact hlt)
      refine { key with q1 := hq1, q2 := ?_, fresh := ?_ }
      · intro x hx
        dsimp only at hx ⊢
        simp only [upd_apply] at hx
        split at hx
        · exact absurd rfl hx
        · exact hq.q2 x hx
      · intro x hx
        dsimp only at hx ⊢
        have := hq.fresh x hx
        refine ⟨this.1, ?_⟩
        simp only [upd_apply]
        split
        · rfl
        · exact this.2

theorem qinv_dequeueN (s : State) (g n : Nat) (hq : QInv s) : QInv (dequeueN s g n) := by
  induction n generalizing s with
  | zero => exact hq
  | succ n ih => exact ih _ (qinv_dequeueOne s g hq)

/-- The state of `getBegin` before the dequeue loop. -/
def getBeginMid (s : State) (g d : Nat) : State :=
  let ex := s.map d
  let need := if s.store d = s.latest d then 0 else s.latest d
  let s := match ex with
    | some h => increaseUseCount s h
    | none => s
  let r : GetRec :=
    { digest := d, existing := ex, readPending := ex.isNone, readMsg := 0, writes := [], failed := false,
      need := need }
  { s with gets := setG s.gets g r }

theorem getBegin_eq (s : State) (g d : Nat) (hg : lookupG s.gets g = none) :
    getBegin s g d = dequeueN (getBeginMid s g d) g writesPerRead := by
  unfold getBegin
  rw [hg]
  rfl

theorem qinv_getBeginMid (s : State) (g d : Nat) (hq : QInv s) (hg : lookupG s.gets g = none) :
    QInv (getBeginMid s g d) := by
  unfold getBeginMid
  cases hm : s.map d with
  | none =>
    dsimp only
    refine { hq with acct := ?_, keys := keysNodup_setG _ _ _ hq.keys, wlt := ?_ }
    · intro x
      dsimp only
      rw [refs_setG_new _ _ _ _ hg]
      simp
      exact hq.acct x
    · intro g' r' w hl hw
      dsimp only at hl ⊢
      simp only [lookupG_setG] at hl
      split at hl
      · cases hl; simp at hw
      · exact hq.wlt g' r' w hl hw
  | some e =>
    dsimp only
    obtain ⟨q', idx', heq, hq1, hie, hix⟩ := increaseUseCount_spec s e hq.q1
    rw [heq]
    refine ⟨hq1, ?_, ?_, hq.mapLt, ?_, keysNodup_setG _ _ _ hq.keys, ?_, hq.nopanic⟩
    · intro x hx
      dsimp only at hx ⊢
      simp only [upd_apply]
      by_cases hxe : x = e
      · subst hxe; exact absurd hie hx
      · simp only [hxe, if_false]
        exact hq.q2 x ((hix x hxe).1 hx)
    · intro x
      dsimp only
      rw [refs_setG_new _ _ _ _ hg]
      simp only [upd_apply]
      have := hq.acct x
      by_cases hxe : x = e
      · subst hxe; simp; omega
      · have : ¬ (some e = some x) := by simpa using (fun h => hxe h.symm)
        simp [hxe, this]; omega
    · intro x hx
      dsimp only at hx ⊢
      have helt := hq.mapLt _ _ hm
      have hxe : x ≠ e := by omega
      have := hq.fresh x hx
      simp only [upd_apply, hxe, if_false]
      refine ⟨this.1, ?_⟩
      apply Classical.byContradiction
      intro hc
      exact ((hix x hxe).1 hc) this.2
    · intro g' r' w hl hw
      dsimp only at hl ⊢
      simp only [lookupG_setG] at hl
      split at hl
      · cases hl; simp at hw
      · exact hq.wlt g' r' w hl hw

theorem qinv_getBegin (s : State) (g d : Nat) (hq : QInv s) : QInv (getBegin s g d) := by
  cases hg : lookupG s.gets g with
  | some r => unfold getBegin; simp [hg]; exact hq
  | none =>
    rw [getBegin_eq s g d hg]
    exact qinv_dequeueN _ g _ (qinv_getBeginMid s g d hq hg)

theorem qinv_step (cfg : Config) (s : State) (op : Op) (hq : QInv s) : QInv (step cfg s op) := by
  cases op with
  | getBegin g d => exact qinv_getBegin s g d hq
  | readDone g ok => exact qinv_readDone s g ok hq
  | putDone g h o => exact qinv_putDone cfg s g h o hq
  | getEnd g => exact qinv_getEnd cfg s g hq
  | release h dirty => exact qinv_release cfg s h dirty hq

theorem qinv_run (cfg : Config) (ops : List Op) : QInv (run cfg ops) := by
  unfold run
  suffices h : ∀ s, QInv s → QInv (ops.foldl (step cfg) s) from h _ qinv_init
  induction ops with
  | nil => intro s hs; exact hs
  | cons op rest ih => intro s hs; exact ih _ (qinv_step cfg s op hs)

end BbRe.Lemmas.ProtoStore
