import Lean
open Lean Elab Command

/-- `#audit_namespace Foo` prints, for every theorem whose name starts with `Foo`,
the axioms it depends on (`AUDIT name : [axioms]`) and the number of theorems audited. -/
elab "#audit_namespace " ns:ident : command => do
  let env ← getEnv
  let nsName := ns.getId
  let mut n : Nat := 0
  let consts := env.constants.fold (fun acc k v => (k, v) :: acc) []
  for (name, info) in consts do
    if nsName.isPrefixOf name && !name.isInternal then
      if let .thmInfo _ := info then
        if (name.toString.splitOn "_proof_").length > 1 then continue
        let axs ← liftCoreM <| Lean.collectAxioms name
        logInfo m!"AUDIT {name} : {axs.toList}"
        n := n + 1
  logInfo m!"AUDIT-COUNT {n}"
