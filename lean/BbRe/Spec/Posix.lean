import BbRe.Model.Dir
/-!
Reference hierarchy for C13: a POSIX-style file hierarchy in textbook form.

Directories and leaves are inodes (the interface of `virtual.Directory`
addresses a directory object plus a name, never a path, and a removed directory
stays a valid handle).  A directory is a *finite map* from normalised names to
(name as created, child): there is no order, no cookie, no change counter, no
ghost link count — the link count of a leaf is the number of names that refer to
it (`linked`).  Each operation is given by its POSIX rule.

Deviations of `in_memory_prepopulated_directory.go` from textbook POSIX, made
explicit here (the spec mirrors the code there; each one is an upstream
decision, see the comments in the Go source):

* D1 `rename`: moving a directory into its own subtree is *not* rejected
  (upstream TODO "check for potential creation of cyclic directory structures").
* D2 files whose name matches the hidden-files pattern do not make a directory
  non-empty: `rmdir` / `rename` over a directory succeed and the hidden files
  vanish with the directory (`onlyHidden`).
* D3 a removed directory stays a valid handle: look-ups say ENOENT (it has no
  entries), every creation says ENOENT (`removed`).
* D4 directories are born lazily: `pending = some t` means the contents are still
  those of template `t` (an `InitialContentsFetcher`); the first operation that
  needs the contents expands it (`expand`), and fails with EIO when the fetcher
  fails.
* D5 `remove` with `rmDir = false` on a directory is EPERM, with `rmLeaf = false`
  on a leaf ENOTDIR (the call serves rmdir, unlink and NFSv4 REMOVE).
* D6 `open` of an existing non-regular leaf is `symlink` (NFS4ERR_SYMLINK for all
  irregular files); `link` of a leaf without any name left is ESTALE; `mknod` of
  anything but FIFO / socket / symlink is EPERM.
* D8 error precedence: as in the code (e.g. `rename`: a missing source is
  reported before a type conflict; a removed target directory before a missing
  source when the target name is free).

The spec is not meant to be executed (`linked` and `onlyHidden` quantify over
all names); `Lemmas/DirPosix.lean` proves that the store of `Model/Dir.lean`
simulates it.
-/
namespace BbRe.Spec.Posix
open BbRe.Dir (Child Status TChild sortChildren openSelfStatus)

structure SDir where
  pending : Option Nat := none
  entries : Nat → Option (Nat × Child) := fun _ => none
  removed : Bool := false
  fs      : Nat := 0

instance : Inhabited SDir := ⟨{}⟩

structure FS where
  dirs      : List SDir := []
  kinds     : List Nat := []
  tmpls     : List (List (Nat × TChild)) := [[]]
  fetchFail : Bool := false
  allocFail : Bool := false

def SDir.put (x : SDir) (nn name : Nat) (c : Child) : SDir :=
  { x with entries := fun n => if n = nn then some (name, c) else x.entries n }

def SDir.del (x : SDir) (nn : Nat) : SDir :=
  { x with entries := fun n => if n = nn then none else x.entries n }

def FS.dir (f : FS) (d : Nat) : SDir := f.dirs[d]?.getD default
def FS.kind (f : FS) (l : Nat) : Nat := f.kinds[l]?.getD 0
def FS.tmpl (f : FS) (t : Nat) : List (Nat × TChild) := f.tmpls[t]?.getD []
def FS.modDir (f : FS) (d : Nat) (g : SDir → SDir) : FS := { f with dirs := f.dirs.set d (g (f.dir d)) }
def FS.pushDir (f : FS) (x : SDir) : FS := { f with dirs := f.dirs ++ [x] }
def FS.pushLeaf (f : FS) (k : Nat) : FS := { f with kinds := f.kinds ++ [k] }

/-- The leaf still has a name somewhere. -/
def linked (f : FS) (l : Nat) : Prop :=
  ∃ d n name, d < f.dirs.length ∧ (f.dir d).entries n = some (name, Child.leaf l)

/-- Nothing but hidden files (D2). -/
def onlyHidden (hidden : Nat → Bool) (x : SDir) : Prop :=
  ∀ n name c, x.entries n = some (name, c) → c.isDir = false ∧ hidden name = true

def fresh (t : Option Nat) (fs : Nat) : SDir := { pending := t, fs := fs }

/-- A removed directory: no entries (whatever hidden files it had are gone), no pending contents. -/
def tombstone (x : SDir) : SDir := { pending := none, entries := fun _ => none, removed := true, fs := x.fs }

/-- Put the children of a template into directory `d`; `none` when two of them collide. -/
def populate (norm : Nat → Nat) (d : Nat) : List (Nat × TChild) → FS → Option FS
  | [], f => some f
  | (name, tc) :: rest, f =>
    let nn := norm name
    if (f.dir d).removed || ((f.dir d).entries nn).isSome then none
    else
      match tc with
      | .leaf l => populate norm d rest (f.modDir d (fun x => x.put nn name (Child.leaf l)))
      | .dir t =>
        populate norm d rest
          ((f.pushDir (fresh (some t) (f.dir d).fs)).modDir d (fun x => x.put nn name (Child.dir f.dirs.length)))

/-- First access to a lazily defined directory (D4). -/
def expand (norm : Nat → Nat) (f : FS) (d : Nat) : Except Status FS :=
  match (f.dir d).pending with
  | none => .ok f
  | some t =>
    if t != 0 && f.fetchFail then .error .io
    else
      match populate norm d (sortChildren (f.tmpl t)) (f.modDir d (fun x => { x with pending := none })) with
      | some f' => .ok f'
      | none => .error .panic

abbrev Res := FS × Status × Option Child

/-- Common part of every creation: the directory must exist and the name must be free. -/
def creatable (x : SDir) (nn : Nat) : Option Status :=
  if x.removed then some .noent
  else if (x.entries nn).isSome then some .exist
  else none

def mkdir (norm : Nat → Nat) (f : FS) (d name : Nat) : Res :=
  match expand norm f d with
  | .error e => (f, e, none)
  | .ok f1 =>
    match creatable (f1.dir d) (norm name) with
    | some e => (f1, e, none)
    | none =>
      ((f1.pushDir (fresh (some 0) (f1.dir d).fs)).modDir d (fun x => x.put (norm name) name (Child.dir f1.dirs.length)),
        .ok, some (Child.dir f1.dirs.length))

def mknod (norm : Nat → Nat) (f : FS) (d name kind : Nat) : Res :=
  match expand norm f d with
  | .error e => (f, e, none)
  | .ok f1 =>
    match creatable (f1.dir d) (norm name) with
    | some e => (f1, e, none)
    | none =>
      if kind = 1 ∨ kind = 2 ∨ kind = 3 then
        if kind = 3 ∧ f1.allocFail = true then (f1, .io, none)
        else
          ((f1.pushLeaf kind).modDir d (fun x => x.put (norm name) name (Child.leaf f1.kinds.length)),
            .ok, some (Child.leaf f1.kinds.length))
      else (f1, .perm, none)

def openc (norm : Nat → Nat) (f : FS) (d name : Nat) (create existing : Bool) : Res :=
  match expand norm f d with
  | .error e => (f, e, none)
  | .ok f1 =>
    match (f1.dir d).entries (norm name) with
    | some (_, c) =>
      if !existing then (f1, .exist, none)
      else
        match c with
        | .dir _ => (f1, .isdir, none)
        | .leaf l => (f1, openSelfStatus (f1.kind l), some (Child.leaf l))
    | none =>
      if (f1.dir d).removed || !create then (f1, .noent, none)
      else if f1.allocFail then (f1, .io, none)
      else
        ((f1.pushLeaf 0).modDir d (fun x => x.put (norm name) name (Child.leaf f1.kinds.length)),
          .ok, some (Child.leaf f1.kinds.length))

open Classical in
noncomputable def link (norm : Nat → Nat) (f : FS) (d name l : Nat) : Res :=
  match expand norm f d with
  | .error e => (f, e, none)
  | .ok f1 =>
    match creatable (f1.dir d) (norm name) with
    | some e => (f1, e, none)
    | none =>
      if linked f1 l then (f1.modDir d (fun x => x.put (norm name) name (Child.leaf l)), .ok, none)
      else (f1, .stale, none)

def lookup (norm : Nat → Nat) (f : FS) (d name : Nat) : Res :=
  match expand norm f d with
  | .error e => (f, e, none)
  | .ok f1 =>
    match (f1.dir d).entries (norm name) with
    | some (_, c) => (f1, .ok, some c)
    | none => (f1, .noent, none)

open Classical in
noncomputable def remove (norm : Nat → Nat) (hidden : Nat → Bool) (f : FS) (d name : Nat) (rmDir rmLeaf : Bool) : Res :=
  match expand norm f d with
  | .error e => (f, e, none)
  | .ok f1 =>
    match (f1.dir d).entries (norm name) with
    | none => (f1, .noent, none)
    | some (_, .dir c) =>
      if !rmDir then (f1, .perm, none)
      else
        match expand norm f1 c with
        | .error e => (f1, e, none)
        | .ok f2 =>
          if onlyHidden hidden (f2.dir c) then
            ((f2.modDir c tombstone).modDir d (fun x => x.del (norm name)), .ok, none)
          else (f2, .notempty, none)
    | some (_, .leaf _) =>
      if !rmLeaf then (f1, .notdir, none)
      else (f1.modDir d (fun x => x.del (norm name)), .ok, none)

/-- Move the entry `(dOld, nOld)` to `(dNew, newName)`, replacing whatever is there. -/
def move (norm : Nat → Nat) (f : FS) (dOld nOld dNew newName : Nat) (c : Child) : FS :=
  ((f.modDir dOld (fun x => x.del nOld)).modDir dNew (fun x => x.del (norm newName))).modDir dNew
    (fun x => x.put (norm newName) newName c)

open Classical in
noncomputable def rename (norm : Nat → Nat) (hidden : Nat → Bool) (f : FS) (dOld oldName dNew newName : Nat) : Res :=
  match expand norm f dOld with
  | .error e => (f, e, none)
  | .ok f1 =>
    match expand norm f1 dNew with
    | .error e => (f1, e, none)
    | .ok f2 =>
      let src := (f2.dir dOld).entries (norm oldName)
      match (f2.dir dNew).entries (norm newName) with
      | none =>
        if (f2.dir dNew).removed then (f2, .noent, none)
        else
          match src with
          | none => (f2, .noent, none)
          | some (_, c) =>
            if c.isDir = true ∧ (f2.dir dOld).fs ≠ (f2.dir dNew).fs then (f2, .xdev, none)
            else (move norm f2 dOld (norm oldName) dNew newName c, .ok, none)
      | some (_, cd) =>
        match src with
        | none => (f2, .noent, none)
        | some (_, cs) =>
          match cd, cs with
          | .dir _, .leaf _ => (f2, .isdir, none)
          | .leaf _, .dir _ => (f2, .notdir, none)
          | .leaf nl, .leaf ol =>
            if nl = ol then (f2, .ok, none)                      -- POSIX: both names stay
            else (move norm f2 dOld (norm oldName) dNew newName cs, .ok, none)
          | .dir nd, .dir od =>
            if nd = od then (f2, .ok, none)
            else if (f2.dir dOld).fs ≠ (f2.dir dNew).fs then (f2, .xdev, none)
            else
              match expand norm f2 nd with
              | .error e => (f2, e, none)
              | .ok f3 =>
                if onlyHidden hidden (f3.dir nd) then
                  -- D1: no check that dNew lies below `od`
                  (((((f3.modDir dOld (fun x => x.del (norm oldName))).modDir dNew (fun x => x.del (norm newName))).modDir nd
                      tombstone).modDir dNew (fun x => x.put (norm newName) newName cs)), .ok, none)
                else (f3, .notempty, none)

/-! ### bulk calls of `PrepopulatedDirectory` -/

/-- `b` is a sub-directory of `a`. -/
def edge (f : FS) (a b : Nat) : Prop := ∃ n name, (f.dir a).entries n = some (name, Child.dir b)

/-- `c` is `a` or lies below it. -/
inductive Reach (f : FS) : Nat → Nat → Prop
  | refl (a : Nat) : Reach f a a
  | step {a b c : Nat} : edge f a b → Reach f b c → Reach f a c

open Classical in
/-- Recursive removal: every directory that is one of `roots` or lies below one
becomes a tombstone (its leaves lose the names they had there). -/
noncomputable def destroy (f : FS) (roots : Nat → Prop) : FS :=
  { f with dirs := f.dirs.mapIdx (fun i x => if ∃ r, roots r ∧ Reach f r i then tombstone x else x) }

/-- `CreateAndEnterPrepopulatedDirectory`: enter the directory of that name, creating
it if needed; a leaf of that name is replaced (D7). -/
def createAndEnter (norm : Nat → Nat) (f : FS) (d name : Nat) : Res :=
  match expand norm f d with
  | .error e => (f, e, none)
  | .ok f1 =>
    match (f1.dir d).entries (norm name) with
    | some (_, .dir c) => (f1, .ok, some (Child.dir c))
    | some (_, .leaf _) =>
      (((f1.modDir d (fun x => x.del (norm name))).pushDir (fresh (some 0) (f1.dir d).fs)).modDir d
          (fun x => x.put (norm name) name (Child.dir f1.dirs.length)), .ok, some (Child.dir f1.dirs.length))
    | none =>
      if (f1.dir d).removed then (f1, .noent, none)
      else
        ((f1.pushDir (fresh (some 0) (f1.dir d).fs)).modDir d (fun x => x.put (norm name) name (Child.dir f1.dirs.length)),
          .ok, some (Child.dir f1.dirs.length))

/-- `RemoveAll(name)`: the entry goes away; a directory goes away with everything below it. -/
noncomputable def removeAll (norm : Nat → Nat) (f : FS) (d name : Nat) : Res :=
  match expand norm f d with
  | .error e => (f, e, none)
  | .ok f1 =>
    match (f1.dir d).entries (norm name) with
    | none => (f1, .noent, none)
    | some (_, .leaf _) => (f1.modDir d (fun x => x.del (norm name)), .ok, none)
    | some (_, .dir c) => (destroy (f1.modDir d (fun x => x.del (norm name))) (fun r => r = c), .ok, none)

/-- What is left of a directory whose children were all removed. -/
def emptied (b : Bool) (x : SDir) : SDir :=
  { pending := none, entries := fun _ => none, removed := x.removed || b, fs := x.fs }

/-- `RemoveAllChildren(deleteSelf)`: never fails, does not even look at a pending fetcher. -/
noncomputable def removeAllChildren (f : FS) (d : Nat) (deleteSelf : Bool) : Res :=
  (destroy (f.modDir d (emptied deleteSelf)) (fun c => edge f d c), .ok, none)

open Classical in
/-- `CreateChildren(children, overwrite)`. -/
noncomputable def createChildren (norm : Nat → Nat) (f : FS) (d : Nat) (overwrite : Bool) (cs : List (Nat × TChild)) : Res :=
  match expand norm f d with
  | .error e => (f, e, none)
  | .ok f1 =>
    if (f1.dir d).removed then (f1, .noent, none)
    else
      let norms := cs.map (fun c => norm c.1)
      if overwrite then
        match populate norm d (sortChildren cs)
            (f1.modDir d (fun x => { x with entries := fun n => if norms.contains n then none else x.entries n })) with
        | none => (f, .panic, none)
        | some f3 =>
          (destroy f3 (fun c => ∃ n name, norms.contains n = true ∧ (f1.dir d).entries n = some (name, Child.dir c)), .ok, none)
      else if ∃ n, norms.contains n = true ∧ ((f1.dir d).entries n).isSome = true then (f1, .exist, none)
      else
        match populate norm d (sortChildren cs) f1 with
        | none => (f, .panic, none)
        | some f3 => (f3, .ok, none)

/-- What `FilterChildren` may hand to its callback: a leaf entry `(owner, name, leaf)` of a
directory at or below `d`, or a directory at or below `d` whose contents are still pending. -/
def filterItem (f : FS) (d : Nat) (owner name : Nat) (c : Child) : Prop :=
  Reach f d owner ∧
    ((∃ n l, c = Child.leaf l ∧ (f.dir owner).entries n = some (name, Child.leaf l)) ∨
     (c = Child.dir owner ∧ (f.dir owner).pending ≠ none))

/-- Operations of the reference hierarchy. -/
inductive Op
  | mkdir (d name : Nat)
  | mknod (d name kind : Nat)
  | openc (d name : Nat) (create existing : Bool)
  | link (d name l : Nat)
  | lookup (d name : Nat)
  | remove (d name : Nat) (rmDir rmLeaf : Bool)
  | rename (dOld oldName dNew newName : Nat)
  | createAndEnter (d name : Nat)
  | removeAll (d name : Nat)
  | removeAllChildren (d : Nat) (deleteSelf : Bool)
  | createChildren (d : Nat) (overwrite : Bool) (children : List (Nat × TChild))
  | access (d : Nat)           -- any call that only looks into the directory (listings)
  | nop                        -- attributes, FilterChildren's traversal, InstallHooks
  | newRoot (fs : Nat)
  | newLeaf (kind : Nat)
  | defTmpl (children : List (Nat × TChild))
  | setFetchFail (b : Bool)
  | setAllocFail (b : Bool)

/-- Looking into a directory expands it (D4) and changes nothing else. -/
def access (norm : Nat → Nat) (f : FS) (d : Nat) : Res :=
  match expand norm f d with
  | .error e => (f, e, none)
  | .ok f1 => (f1, .ok, none)

noncomputable def step (norm : Nat → Nat) (hidden : Nat → Bool) (f : FS) : Op → Res
  | .mkdir d n => mkdir norm f d n
  | .mknod d n k => mknod norm f d n k
  | .openc d n c e => openc norm f d n c e
  | .link d n l => link norm f d n l
  | .lookup d n => lookup norm f d n
  | .remove d n a b => remove norm hidden f d n a b
  | .rename d1 n1 d2 n2 => rename norm hidden f d1 n1 d2 n2
  | .createAndEnter d n => createAndEnter norm f d n
  | .removeAll d n => removeAll norm f d n
  | .removeAllChildren d b => removeAllChildren f d b
  | .createChildren d ow cs => createChildren norm f d ow cs
  | .access d => access norm f d
  | .nop => (f, .ok, none)
  | .newRoot fs => (f.pushDir (fresh (some 0) fs), .ok, some (Child.dir f.dirs.length))
  | .newLeaf k => (f.pushLeaf k, .ok, some (Child.leaf f.kinds.length))
  | .defTmpl cs => ({ f with tmpls := f.tmpls ++ [cs] }, .ok, none)
  | .setFetchFail b => ({ f with fetchFail := b }, .ok, none)
  | .setAllocFail b => ({ f with allocFail := b }, .ok, none)

end BbRe.Spec.Posix
