/-!
# `ByteFile` — a file as a sparse byte array (the specification side of C15)

A file is its size and its bytes; everything at or beyond the size is zero
(`WF`).  `create`/`read`/`write`/`truncate` are the POSIX `pread`/`pwrite`/
`ftruncate` semantics that a file handed out by a `pool.FilePool` has to
exhibit: a new file of `size` bytes shows the hole source's contents, a write
past the end leaves a gap of zeros, shrinking discards the tail and growing
again shows zeros there.  Core Lean only.
-/
namespace BbRe.ByteFile

abbrev Byte := Nat

structure ByteFile where
  size : Nat
  data : Nat → Byte

/-- extensional equality -/
def Eqv (a b : ByteFile) : Prop := a.size = b.size ∧ ∀ i, a.data i = b.data i

/-- nothing but zeros at or beyond the size -/
def WF (b : ByteFile) : Prop := ∀ i, b.size ≤ i → b.data i = 0

/-- `NewFile(holeSource, size)`: the first `size` bytes of the hole source. -/
def create (hole : Nat → Byte) (size : Nat) : ByteFile :=
  ⟨size, fun i => if i < size then hole i else 0⟩

/-- `ReadAt(p[:n], off)`: the bytes and whether `io.EOF` is reported. -/
def read (b : ByteFile) (off n : Nat) : List Byte × Bool :=
  if n = 0 then ([], false)
  else if b.size ≤ off then ([], true)
  else ((List.range (min n (b.size - off))).map (fun j => b.data (off + j)), decide (b.size ≤ off + n))

/-- `WriteAt(p, off)` (all of `p` written). -/
def write (b : ByteFile) (off : Nat) (p : List Byte) : ByteFile :=
  if p.length = 0 then b
  else ⟨max b.size (off + p.length),
    fun i => if off ≤ i ∧ i < off + p.length then p.getD (i - off) 0 else b.data i⟩

/-- `Truncate(sz)`. -/
def truncate (b : ByteFile) (sz : Nat) : ByteFile := ⟨sz, fun i => if i < sz then b.data i else 0⟩

theorem create_wf (hole : Nat → Byte) (size : Nat) : WF (create hole size) := by
  intro i hi; simp only [create] at hi ⊢; rw [if_neg (by omega)]

theorem write_wf (b : ByteFile) (off : Nat) (p : List Byte) (h : WF b) : WF (write b off p) := by
  unfold write
  split
  · exact h
  · intro i hi
    dsimp only at hi ⊢
    rw [if_neg (by omega)]
    exact h i (by omega)

theorem truncate_wf (b : ByteFile) (sz : Nat) : WF (truncate b sz) := by
  intro i hi; simp only [truncate] at hi ⊢; rw [if_neg (by omega)]

/-- a byte that was written is what a later read sees -/
theorem read_after_write (b : ByteFile) (off : Nat) (p : List Byte) (j : Nat) (hj : j < p.length) :
    (write b off p).data (off + j) = p.getD j 0 := by
  unfold write
  rw [if_neg (by omega)]
  dsimp only
  rw [if_pos (by omega), Nat.add_sub_cancel_left]

/-- shrink-then-grow: everything from the truncation point on reads as zero -/
theorem shrink_then_grow (b : ByteFile) (s t i : Nat) (hi : s ≤ i) :
    (truncate (truncate b s) t).data i = 0 := by
  simp only [truncate]
  split
  · rw [if_neg (by omega)]
  · rfl

/-- writing beyond the end leaves a gap of zeros -/
theorem write_gap (b : ByteFile) (h : WF b) (off : Nat) (p : List Byte) (i : Nat) (h1 : b.size ≤ i) (h2 : i < off) :
    (write b off p).data i = 0 := by
  unfold write
  split
  · exact h i h1
  · dsimp only; rw [if_neg (by omega)]; exact h i h1

end BbRe.ByteFile
