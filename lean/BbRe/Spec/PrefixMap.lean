/-
Specification side of the routing part of C05: a finite map from
(platform, instance-name component list) to a natural number (the index of a
platform queue / action router) with `longestPrefix`.

Core Lean only (the trie driver links it).  Nothing here looks like a trie:
the map is an association list, `longestPrefix` tries every prefix of the
requested component list from the longest to the shortest.
-/
namespace BbRe.Spec.PrefixMap

/-- an instance-name component (`a` in `a/b/c`), interned by the harness. -/
abbrev Comp := Nat
/-- one REv2 platform property: (name, value); the harness interns strings order-preservingly. -/
abbrev Prop' := Nat × Nat
/-- the platform part of a key: the property list `NewKey` accepted (`Key.platform`, the
canonical JSON string, is an injective function of it: `Model/Trie.lean`, `platformString`). -/
abbrev Plat := List Prop'

/-- `platform.Key`: instance name prefix (component list) + platform. -/
structure Key where
  inst : List Comp
  plat : Plat
deriving DecidableEq, Repr, Inhabited

/-- the finite map: association list, first binding wins (`set` removes older ones). -/
abbrev PrefixMap := List (Key × Nat)

def get (m : PrefixMap) (k : Key) : Option Nat :=
  match m with
  | [] => none
  | (k', v) :: r => if k' = k then some v else get r k

def erase (m : PrefixMap) (k : Key) : PrefixMap := m.filter (fun e => e.1 ≠ k)

def set (m : PrefixMap) (k : Key) (v : Nat) : PrefixMap := (k, v) :: erase m k

def empty : PrefixMap := []

/-- value of the longest registered prefix of `rest` (prepended by `pre`) with platform `plat`:
the longer candidates are tried first. -/
def longestPrefixFrom (m : PrefixMap) (plat : Plat) (pre : List Comp) : List Comp → Option Nat
  | [] => get m ⟨pre, plat⟩
  | c :: cs =>
    match longestPrefixFrom m plat (pre ++ [c]) cs with
    | some v => some v
    | none => get m ⟨pre, plat⟩

/-- the specification of `Trie.GetLongestPrefix`. -/
def longestPrefix (m : PrefixMap) (k : Key) : Option Nat := longestPrefixFrom m k.plat [] k.inst

/-- the `int` the Go API returns for an optional index. -/
def toInt : Option Nat → Int
  | some v => (v : Int)
  | none => -1

/-- operations of a history. -/
inductive Op
  | set (k : Key) (v : Nat)
  | remove (k : Key)
deriving Repr, Inhabited

def apply (m : PrefixMap) : Op → PrefixMap
  | .set k v => set m k v
  | .remove k => erase m k

def run (m : PrefixMap) (ops : List Op) : PrefixMap := ops.foldl apply m

end BbRe.Spec.PrefixMap
