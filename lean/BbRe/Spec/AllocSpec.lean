/-!
# `AllocSpec` — the abstract contract of a `pool.SectorAllocator`

Mirrors the interface comment of `/repo/pkg/filesystem/pool/sector_allocator.go`:
sector numbers handed out start at **one** (zero is reserved for "hole"), a
device has sectors `1 … n`, `AllocateContiguous(max)` returns a contiguous run
of `1 ≤ count ≤ max` sectors that were all free (fewer than requested is
allowed), and fails only when nothing is free; `FreeContiguous`/`FreeList` give
back sectors that are allocated (`FreeList` ignores zeros).

The abstract state is only the set of allocated sectors, as a predicate
`Nat → Bool` (`true` = allocated).  Nothing outside `1 … n` is ever allocated.
Core Lean only (imported by executable models).

Users:
* `Model/Bitmap.lean` + `Properties/C15Alloc.lean` prove that the bitmap
  allocator `Meets` this spec (`bitmap_meets_spec`);
* `Model/FilePool.lean` is parametric in any allocator with these step
  relations.
-/
namespace BbRe.AllocSpec

/-- Abstract allocator state: `a s = true` iff sector `s` is allocated. -/
abbrev Abs := Nat → Bool

/-- Nothing allocated. -/
def init : Abs := fun _ => false

/-- `s ∈ [first, first+count)` -/
def inRun (first count s : Nat) : Bool := decide (first ≤ s) && decide (s < first + count)

/-- Well-formedness for a device of `n` sectors: only `1 … n` can be allocated. -/
def WF (n : Nat) (a : Abs) : Prop := ∀ s, a s = true → 1 ≤ s ∧ s ≤ n

/-- Sector `s` of a device with `n` sectors is free. -/
def IsFree (n : Nat) (a : Abs) (s : Nat) : Prop := 1 ≤ s ∧ s ≤ n ∧ a s = false

/-- Number of free sectors of a device with `n` sectors (sectors `1 … n`). -/
def freeCount (a : Abs) : Nat → Nat
  | 0 => 0
  | n + 1 => freeCount a n + (if a (n + 1) then 0 else 1)

/-- A successful `AllocateContiguous(max)` that returned `(first, count)`. -/
structure AllocOk (n : Nat) (a : Abs) (max first count : Nat) (a' : Abs) : Prop where
  count_pos : 1 ≤ count
  count_le  : count ≤ max
  first_pos : 1 ≤ first
  in_range  : first + count ≤ n + 1
  were_free : ∀ s, first ≤ s → s < first + count → a s = false
  post      : ∀ s, a' s = (a s || inRun first count s)

/-- A failing `AllocateContiguous` is only allowed when nothing is free; it
changes nothing. -/
structure AllocFail (n : Nat) (a a' : Abs) : Prop where
  full : ∀ s, 1 ≤ s → s ≤ n → a s = true
  post : ∀ s, a' s = a s

/-- Precondition of `FreeContiguous(first, count)`. -/
def FreeContiguousPre (a : Abs) (first count : Nat) : Prop :=
  1 ≤ first ∧ ∀ s, first ≤ s → s < first + count → a s = true

/-- Effect of `FreeContiguous(first, count)`. -/
def FreeContiguousPost (a : Abs) (first count : Nat) (a' : Abs) : Prop :=
  ∀ s, a' s = (a s && !inRun first count s)

/-- Precondition of `FreeList(sectors)`: the non-zero entries are allocated and
pairwise distinct. -/
def FreeListPre (a : Abs) (sectors : List Nat) : Prop :=
  (∀ s ∈ sectors, s ≠ 0 → a s = true) ∧ (sectors.filter (· ≠ 0)).Nodup

/-- Effect of `FreeList(sectors)`. -/
def FreeListPost (a : Abs) (sectors : List Nat) (a' : Abs) : Prop :=
  ∀ s, a' s = (a s && !(decide (s ≠ 0) && sectors.contains s))

/-- An allocator implementation over concrete states `σ`.  Frees return `none`
when the implementation panics (double free / out of range). -/
structure Impl (σ : Type) where
  new : Nat → σ
  alloc : σ → Nat → σ × Option (Nat × Nat)
  freeContiguous : σ → Nat → Nat → Option σ
  freeList : σ → List Nat → Option σ

/-- `I` refines `AllocSpec` through abstraction `abs n` and invariant `inv n`
for every device size `n`.  (`FreeContiguous` is only specified for `count ≥ 1`: the only
caller passes the count of a successful allocation; with `count = 0` and `first` beyond the
device the bitmap implementation indexes outside its slice.) -/
structure Meets {σ : Type} (I : Impl σ) (inv : Nat → σ → Prop) (abs : Nat → σ → Abs) : Prop where
  new_inv : ∀ n, inv n (I.new n)
  new_abs : ∀ n s, abs n (I.new n) s = false
  abs_wf : ∀ n st, inv n st → WF n (abs n st)
  alloc_inv : ∀ n st max, inv n st → 1 ≤ max → inv n (I.alloc st max).1
  alloc_ok : ∀ n st max first count, inv n st → 1 ≤ max →
    (I.alloc st max).2 = some (first, count) →
    AllocOk n (abs n st) max first count (abs n (I.alloc st max).1)
  alloc_fail : ∀ n st max, inv n st → (I.alloc st max).2 = none →
    AllocFail n (abs n st) (abs n (I.alloc st max).1)
  freeContiguous_ok : ∀ n st first count, inv n st → 1 ≤ count → FreeContiguousPre (abs n st) first count →
    ∃ st', I.freeContiguous st first count = some st' ∧ inv n st' ∧
      FreeContiguousPost (abs n st) first count (abs n st')
  freeList_ok : ∀ n st sectors, inv n st → FreeListPre (abs n st) sectors →
    ∃ st', I.freeList st sectors = some st' ∧ inv n st' ∧
      FreeListPost (abs n st) sectors (abs n st')

/-- In a well-formed state a free sector exists iff allocation cannot be in the
`AllocFail` case: the progress half of the contract. -/
theorem not_full_of_free {n : Nat} {a a' : Abs} {s : Nat} (hf : IsFree n a s) :
    ¬ AllocFail n a a' := by
  intro h
  have := h.full s hf.1 hf.2.1
  rw [hf.2.2] at this
  cases this

/-- Boolean form of `AllocOk` minus the post-state, usable by executable
monitors/models: `(first, count)` is an admissible answer in state `a`. -/
def allocAnswerOk (n : Nat) (a : Abs) (max first count : Nat) : Bool :=
  decide (1 ≤ count) && decide (count ≤ max) && decide (1 ≤ first) && decide (first + count ≤ n + 1) &&
    (List.range count).all (fun i => !a (first + i))

/-- Post-state of an allocation. -/
def markAllocated (a : Abs) (first count : Nat) : Abs := fun s => a s || inRun first count s

/-- Post-state of `FreeContiguous`. -/
def markFree (a : Abs) (first count : Nat) : Abs := fun s => a s && !inRun first count s

/-- Post-state of `FreeList`. -/
def markFreeList (a : Abs) (sectors : List Nat) : Abs :=
  fun s => a s && !(decide (s ≠ 0) && sectors.contains s)

end BbRe.AllocSpec
