import BbRe.Model.BRL
/-!
# Per-byte specification of the byte-range lock table (C20)

`abs ls o b` is the lock type owner `o` holds on byte `b` in table `ls`
(`none` = not locked).  `WF` is the representation invariant of
`ByteRangeLockSet.list`.  `Req`/`applyReq`/`run` model the way the callers
(`opened_files_pool.go`, NFSv4 `LOCK`/`LOCKU`) use the table: a lock request is
applied only if `Test` reported no conflict, an unlock request always.

Core Lean only.
-/
namespace BbRe.Spec.ByteLocks
open BbRe.BRL

/-- Entry `e` is owned by `o` and its range `[start, stop)` contains byte `b`. -/
abbrev Covers (e : Lock) (o b : Nat) : Prop := e.owner = o ∧ e.start ≤ b ∧ b < e.stop

/-- Per-byte abstraction: the type of the first entry of owner `o` that covers
byte `b` (under `WF` at most one entry of `o` covers `b`, see
`BbRe.Lemmas.BRL.abs_eq_some_iff`). -/
def abs : List Lock → Nat → Nat → Option Ty
  | [], _, _ => none
  | e :: rest, o, b => if Covers e o b then some e.ty else abs rest o b

/-- Representation invariant of the lock table. -/
structure WF (ls : List Lock) : Prop where
  /-- sorted by start -/
  sorted : ls.Pairwise (fun a b => a.start ≤ b.start)
  /-- every range is non-empty -/
  nonempty : ∀ e ∈ ls, e.start < e.stop
  /-- no entry has type `unlocked` -/
  locked : ∀ e ∈ ls, e.ty ≠ .unlocked
  /-- per owner: entries (in list order) are pairwise disjoint, and two entries
  of the same type do not even touch (they would have been merged) -/
  own : ls.Pairwise (fun a b => a.owner = b.owner →
          a.stop ≤ b.start ∧ (a.ty = b.ty → a.stop < b.start))
  /-- entries of different owners overlap only if both are shared -/
  cross : ls.Pairwise (fun a b => a.owner ≠ b.owner →
          a.start < b.stop → b.start < a.stop → a.ty = .shared ∧ b.ty = .shared)

instance (ls : List Lock) : Decidable (WF ls) :=
  decidable_of_iff
    (ls.Pairwise (fun a b => a.start ≤ b.start) ∧ (∀ e ∈ ls, e.start < e.stop) ∧
      (∀ e ∈ ls, e.ty ≠ .unlocked) ∧
      ls.Pairwise (fun a b => a.owner = b.owner →
          a.stop ≤ b.start ∧ (a.ty = b.ty → a.stop < b.start)) ∧
      ls.Pairwise (fun a b => a.owner ≠ b.owner →
          a.start < b.stop → b.start < a.stop → a.ty = .shared ∧ b.ty = .shared))
    ⟨fun ⟨a, b, c, d, e⟩ => ⟨a, b, c, d, e⟩, fun h => ⟨h.sorted, h.nonempty, h.locked, h.own, h.cross⟩⟩

/-- A request to the table: the `Lock` value handed to `Set`.  `ty = unlocked`
is an unlock request. -/
abbrev Req := Lock

/-- Callers only pass non-empty ranges (`offsetLengthToStartEnd` rejects length
0 and overflow). -/
def Req.Valid (r : Req) : Prop := r.start < r.stop

instance (r : Req) : Decidable (Req.Valid r) := by unfold Req.Valid; infer_instance

/-- One caller step: unlock requests are always applied; lock requests are
applied only when `Test` reports no conflict (otherwise the request is denied
and the table is unchanged). -/
def applyReq (ls : List Lock) (r : Req) : List Lock :=
  if r.ty = .unlocked then setList ls r
  else if test ls r = none then setList ls r
  else ls

/-- A history of requests applied from left to right. -/
def run (ls : List Lock) : List Req → List Lock
  | [] => ls
  | r :: rs => run (applyReq ls r) rs

/-- The change in the number of entries reported to the caller by one step
(`Set`'s return value if the request was applied, 0 if it was denied). -/
def stepDelta (ls : List Lock) (r : Req) : Int :=
  if r.ty = .unlocked ∨ test ls r = none then (set ls r).2 else 0

/-- What the NFS layer accumulates in a lock-owner's `lockCount` over a history:
the sum of the reported deltas of that owner's requests. -/
def deltaSum (o : Nat) (ls : List Lock) : List Req → Int
  | [] => 0
  | r :: rs => (if r.owner = o then stepDelta ls r else 0) + deltaSum o (applyReq ls r) rs

end BbRe.Spec.ByteLocks
