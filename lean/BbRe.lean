import BbRe.Audit
import BbRe.Model.BRL
