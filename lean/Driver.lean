import BbRe.Drivers.BRL

def main (args : List String) : IO UInt32 := do
  match args with
  | ["brl"] => BbRe.Drivers.BRL.run; return 0
  | _ => IO.eprintln "usage: driver <model>"; return 2
