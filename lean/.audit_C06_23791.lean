import BbRe.Properties.C06Tree
import BbRe.Properties.C06
import BbRe.Audit
#audit_namespace BbRe.Properties.C06Tree
#audit_namespace BbRe.Properties.C06
